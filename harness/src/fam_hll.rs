//! HLL sketch / union: drive the real objects and record traces for Trace_Hll.tla.
use datasketches::common::NumStdDev;
use datasketches::hll::{HllSketch, HllType, HllUnion, VerifHllState};
use serde_json::{Value, json};

use crate::refhash;
use crate::util::*;

pub fn ty(t: u8) -> HllType {
    match t {
        4 => HllType::Hll4,
        6 => HllType::Hll6,
        _ => HllType::Hll8,
    }
}

fn pair(c: u32) -> Value {
    json!([c & ((1 << 26) - 1), c >> 26])
}

pub fn pack(slot: u32, val: u32) -> u32 {
    (val << 26) | (slot & ((1 << 26) - 1))
}

pub fn full(st: &VerifHllState) -> Value {
    let mode = ["list", "set", "arr"][st.mode as usize];
    let arr = st.mode == 2;
    let list: Vec<Value> = if st.mode == 0 {
        st.coupons.iter().filter(|&&c| c != 0).map(|&c| pair(c)).collect()
    } else {
        vec![]
    };
    let tab: Vec<Value> = if st.mode == 1 { st.coupons.iter().map(|&c| pair(c)).collect() } else { vec![] };
    let cells: Vec<u8> = if !arr {
        vec![]
    } else if st.hll_type == 4 {
        st.raw.clone()
    } else {
        st.regs.clone()
    };
    let mut aux = st.aux.clone();
    aux.sort();
    json!({
        "m": mode, "lgk": st.lg_config_k, "t": st.hll_type,
        "cap": if st.mode == 0 { st.coupons.len() } else { 0 },
        "list": list,
        "lga": if st.mode == 1 { st.lg_arr } else { 0 },
        "tab": tab,
        "cnt": if st.mode == 1 { st.count } else { 0 },
        "cells": cells, "regs": if arr { st.regs.clone() } else { vec![] }, "cm": st.cur_min,
        "n": if arr { st.num_at_cur_min } else { 0 },
        "aux": aux.iter().map(|(s, v)| json!([s, v])).collect::<Vec<_>>(),
        "ooo": st.ooo,
        "hp": arr && !st.ooo && st.hip > 0.0,
    })
}

pub fn sc(st: &VerifHllState, slot: u32) -> Value {
    let mode = ["list", "set", "arr"][st.mode as usize];
    let k = 1u32 << st.lg_config_k;
    let n = match st.mode {
        0 => st.coupons.iter().filter(|&&c| c != 0).count() as u64,
        1 => st.count as u64,
        _ => st.num_at_cur_min as u64,
    };
    json!({"m": mode, "n": n, "cm": st.cur_min, "na": st.aux.len(),
           "v": if st.mode == 2 { st.regs[(slot % k) as usize] } else { 0 },
           "lgk": st.lg_config_k})
}

pub fn seven(sk: &HllSketch) -> [f64; 7] {
    [
        sk.lower_bound(NumStdDev::Three),
        sk.lower_bound(NumStdDev::Two),
        sk.lower_bound(NumStdDev::One),
        sk.estimate(),
        sk.upper_bound(NumStdDev::One),
        sk.upper_bound(NumStdDev::Two),
        sk.upper_bound(NumStdDev::Three),
    ]
}

pub fn tok(sk: &HllSketch) -> Value {
    json!(seven(sk).iter().map(|x| fhex(*x)).collect::<Vec<_>>())
}

/// the three-sigma upper bound rounded down (every register that is not zero stands for a distinct item)
fn ub3i(s: &[f64; 7]) -> i64 {
    if s[6].is_finite() && s[6] >= 0.0 { s[6].min(1e9) as i64 } else { -1 }
}

pub fn obs(sk: &HllSketch) -> Value {
    let s = seven(sk);
    json!({"b": ranks(&s), "pos": s[3] > 0.0, "emp": sk.is_empty(), "len": sk.serialize().len(), "rel": rel6(&s), "e3": est1000(&s),
        "ub3i": ub3i(&s)})
}

/// x * 2^shift as four 16-bit limbs when that is an integer below 2^63 (else four times 65535 + marker)
pub fn dyadic_limbs(x: f64, shift: i32) -> Value {
    let y = x * 2f64.powi(shift);
    if y.is_finite() && y >= 0.0 && y.fract() == 0.0 && y < 9.0e18 {
        let u = y as u64;
        json!([u & 0xffff, (u >> 16) & 0xffff, (u >> 32) & 0xffff, (u >> 48) & 0xffff])
    } else {
        json!([70000, 70000, 70000, 70000])
    }
}

/// the estimate in thousandths (while it is small enough for the specification's integers)
pub fn est1000(s: &[f64; 7]) -> i64 {
    if s[3].is_finite() && s[3] >= 0.0 && s[3] < 2.0e6 { (s[3] * 1000.0).round() as i64 } else { -1 }
}

/// the relative error the one-sigma bounds advertise, in 10^-6 units: est/lb1 - 1 and 1 - est/ub1
pub fn rel6(s: &[f64; 7]) -> Value {
    let q = |x: f64| if x.is_finite() { (x.clamp(0.0, 2.0) * 1e6).round() as i64 } else { 2_000_000 };
    if s[3] > 0.0 { json!([q(s[3] / s[2] - 1.0), q(1.0 - s[3] / s[4])]) } else { json!([-1, -1]) }
}

fn uobs(u: &HllUnion) -> Value {
    let g = u.verif_gadget();
    let s = [
        u.lower_bound(NumStdDev::Three),
        u.lower_bound(NumStdDev::Two),
        u.lower_bound(NumStdDev::One),
        u.estimate(),
        u.upper_bound(NumStdDev::One),
        u.upper_bound(NumStdDev::Two),
        u.upper_bound(NumStdDev::Three),
    ];
    json!({"b": ranks(&s), "pos": s[3] > 0.0, "emp": u.is_empty(), "len": g.serialize().len(), "rel": rel6(&s), "e3": est1000(&s),
        "ub3i": ub3i(&s)})
}

fn utok(u: &HllUnion) -> Value {
    let s = [
        u.lower_bound(NumStdDev::Three),
        u.lower_bound(NumStdDev::Two),
        u.lower_bound(NumStdDev::One),
        u.estimate(),
        u.upper_bound(NumStdDev::One),
        u.upper_bound(NumStdDev::Two),
        u.upper_bound(NumStdDev::Three),
    ];
    json!(s.iter().map(|x| fhex(*x)).collect::<Vec<_>>())
}

/// equality of two HLL images up to the order of the Hll4 exception entries (the only part
/// of an HLL image whose order the format leaves to the writer's table layout)
pub fn same_mod_aux_order(a: &[u8], b: &[u8]) -> bool {
    if a.len() != b.len() || a.len() < 8 {
        return false;
    }
    let is_arr = a[7] & 3 == 2 && a[0] == 10;
    let is_hll4_arr = is_arr && (a[7] >> 2) & 3 == 0;
    // the HIP accumulator field (bytes 8..16) of an out-of-order array carries no information:
    // the estimate comes from the composite estimator and the reader resets the accumulator
    let (a, b): (Vec<u8>, Vec<u8>) = if is_arr && a[5] & 16 != 0 && a.len() >= 16 && b.len() >= 16 {
        let mask = |x: &[u8]| {
            let mut v = x.to_vec();
            v[8..16].fill(0);
            v
        };
        (mask(a), mask(b))
    } else {
        (a.to_vec(), b.to_vec())
    };
    let (a, b) = (&a[..], &b[..]);
    if !is_hll4_arr {
        return a == b;
    }
    let k = 1usize << a[3];
    let fixed = 40 + k / 2;
    if a.len() < fixed || a[..fixed] != b[..fixed] {
        return false;
    }
    let mut x: Vec<&[u8]> = a[fixed..].chunks(4).collect();
    let mut y: Vec<&[u8]> = b[fixed..].chunks(4).collect();
    x.sort();
    y.sort();
    x == y
}

/// A recording session: objects by id, events go to the sharded writer.
pub struct Sess<'a> {
    pub out: &'a mut Shards,
    pub sk: Vec<Option<HllSketch>>,
    pub un: Vec<Option<HllUnion>>,
    /// set when the code under test panicked inside this run (the run is cut short)
    pub dead: bool,
}

impl<'a> Sess<'a> {
    pub fn new(out: &'a mut Shards, scn: &str) -> Self {
        out.next_run(scn);
        Sess { out, sk: vec![], un: vec![], dead: false }
    }

    fn guard<T>(&mut self, what: &str, f: impl FnOnce() -> T + std::panic::UnwindSafe) -> Option<T> {
        if self.dead {
            return None;
        }
        match catch(f) {
            Ok(v) => Some(v),
            Err(e) => {
                let loc = e.split(": ").next().unwrap_or("").to_string();
                self.out.ev(json!({"op":"Panic","in":what,"key":loc,"msg":e}));
                self.dead = true;
                None
            }
        }
    }

    pub fn new_sketch(&mut self, lgk: u8, t: u8) -> usize {
        let id = self.sk.len();
        self.sk.push(Some(HllSketch::new(lgk, ty(t))));
        self.out.ev(json!({"op":"New","id":id,"lgk":lgk,"type":t}));
        id
    }

    pub fn new_triplet(&mut self, lgk: u8) -> [usize; 3] {
        [self.new_sketch(lgk, 4), self.new_sketch(lgk, 6), self.new_sketch(lgk, 8)]
    }

    /// update with a crafted coupon (hook)
    pub fn upd(&mut self, id: usize, c: u32) {
        if self.dead {
            return;
        }
        let mut sk = self.sk[id].take().unwrap();
        let r = self.guard("update", std::panic::AssertUnwindSafe(|| {
            sk.verif_update_with_coupon(c);
            sk
        }));
        if let Some(sk) = r {
            let st = sk.verif_state();
            self.out.ev(json!({"op":"Upd","id":id,"c":pair(c),"st":sc(&st, c & 0x3ffffff),"o":obs(&sk)}));
            self.sk[id] = Some(sk);
        } else {
            self.sk[id] = Some(HllSketch::new(4, HllType::Hll8)); // the run is over (dead); keep the slot valid
        }
    }

    /// update a triplet; `item` = Some(u64) goes through the public update (coupon from the
    /// reference hash), None feeds the crafted coupon through the hook.
    pub fn upd3(&mut self, ids: [usize; 3], c: u32, item: Option<u64>) {
        if self.dead {
            return;
        }
        let mut sts = vec![];
        let mut os = vec![];
        let mut toks = vec![];
        for &id in &ids {
            let mut sk = self.sk[id].take().unwrap();
            let r = self.guard("update", std::panic::AssertUnwindSafe(|| {
                match item {
                    Some(x) => sk.update(x),
                    None => sk.verif_update_with_coupon(c),
                }
                sk
            }));
            match r {
                Some(sk) => {
                    let st = sk.verif_state();
                    sts.push(sc(&st, c & 0x3ffffff));
                    os.push(obs(&sk));
                    toks.push(tok(&sk));
                    self.sk[id] = Some(sk);
                }
                None => {
                    self.sk[id] = Some(HllSketch::new(4, HllType::Hll8));
                    return;
                }
            }
        }
        self.out.ev(json!({"op":"Upd3","ids":ids,"c":pair(c),"st":sts,"o":os,"tok":toks}));
    }

    /// two sketches that must report bit-identical estimates and bounds (a sketch and its decoded copy
    /// after the same further updates)
    pub fn cmp(&mut self, a: usize, b: usize) {
        if self.dead {
            return;
        }
        let (ta, tb) = (tok(self.sk[a].as_ref().unwrap()), tok(self.sk[b].as_ref().unwrap()));
        self.out.ev(json!({"op":"Cmp","a":a,"b":b,"same":ta == tb,"tok":[ta, tb]}));
    }

    pub fn chk(&mut self, id: usize) {
        if self.dead {
            return;
        }
        let sk = self.sk[id].as_ref().unwrap();
        let vst = sk.verif_state();
        let mut v = json!({"op":"Chk","id":id,"st":full(&vst),"o":obs(sk)});
        if vst.mode == 2 {
            // kxq0 * 2^31 and kxq1 * 2^63 are integers when the fields are the sums of 2^-register they should be
            v["kx0"] = dyadic_limbs(vst.kxq0, 31);
            v["kx1"] = dyadic_limbs(vst.kxq1, 63);
        }
        if sk.lg_config_k() <= 10 {
            let f = crate::fam_hllfmt::own_image_fields(sk);
            v["img"] = f["img"].clone();
            v["fb"] = f["fb"].clone();
            v["auxo"] = f["auxo"].clone();
        }
        self.out.ev(v);
    }

    /// deserialize(serialize(id)) as a new object
    pub fn rt(&mut self, id: usize) -> usize {
        let to = self.sk.len();
        self.sk.push(None);
        if self.dead {
            return to;
        }
        let sk = self.sk[id].clone().unwrap();
        let r = self.guard("roundtrip", std::panic::AssertUnwindSafe(|| {
            let bytes = sk.serialize();
            let back = HllSketch::deserialize(&bytes).map_err(|e| format!("{e:?}"));
            (bytes, back)
        }));
        if let Some((bytes, back)) = r {
            match back {
                Ok(b) => {
                    let again = b.serialize();
                    let v = json!({"op":"RT","id":id,"to":to,"st":full(&b.verif_state()),"o":obs(&b),
                        "tok":[tok(&sk), tok(&b)], "same": again == bytes,
                        "samex": same_mod_aux_order(&again, &bytes)});
                    self.out.ev(v);
                    self.sk[to] = Some(b);
                }
                Err(e) => {
                    self.out.ev(json!({"op":"Panic","in":"deserialize-own-image","key":"Err","msg":e}));
                    self.dead = true;
                }
            }
        }
        to
    }

    pub fn new_union(&mut self, lgmax: u8) -> usize {
        let id = self.un.len();
        self.un.push(Some(HllUnion::new(lgmax)));
        self.out.ev(json!({"op":"UNew","id":id,"lgmax":lgmax}));
        id
    }

    pub fn uupd(&mut self, u: usize, src: usize) {
        if self.dead {
            return;
        }
        let mut un = self.un[u].take().unwrap();
        let s = self.sk[src].clone().unwrap();
        let r = self.guard("union.update", std::panic::AssertUnwindSafe(|| {
            un.update(&s);
            un
        }));
        if let Some(un) = r {
            let st = un.verif_gadget().verif_state();
            self.out.ev(json!({"op":"UUpd","id":u,"src":src,"st":sc(&st, 0),"o":uobs(&un)}));
            self.un[u] = Some(un);
        } else {
            self.un[u] = Some(HllUnion::new(4));
        }
    }

    pub fn uval(&mut self, u: usize, item: u64) {
        if self.dead {
            return;
        }
        let (slot, val) = refhash::hll_coupon(&item);
        let mut un = self.un[u].take().unwrap();
        let r = self.guard("union.update_value", std::panic::AssertUnwindSafe(|| {
            un.update_value(item);
            un
        }));
        if let Some(un) = r {
            let st = un.verif_gadget().verif_state();
            self.out.ev(json!({"op":"UVal","id":u,"c":[slot,val],"st":sc(&st, 0),"o":uobs(&un)}));
            self.un[u] = Some(un);
        } else {
            self.un[u] = Some(HllUnion::new(4));
        }
    }

    pub fn ureset(&mut self, u: usize) {
        if self.dead {
            return;
        }
        self.un[u].as_mut().unwrap().reset();
        self.out.ev(json!({"op":"UReset","id":u}));
    }

    pub fn uchk(&mut self, u: usize) {
        if self.dead {
            return;
        }
        let un = self.un[u].as_ref().unwrap();
        let v = json!({"op":"UChk","id":u,"st":full(&un.verif_gadget().verif_state()),"o":uobs(un)});
        self.out.ev(v);
    }

    pub fn utosk3(&mut self, u: usize) -> [usize; 3] {
        let to = [self.sk.len(), self.sk.len() + 1, self.sk.len() + 2];
        for _ in 0..3 {
            self.sk.push(None);
        }
        if self.dead {
            return to;
        }
        let un = self.un[u].clone().unwrap();
        let r = self.guard("union.to_sketch", std::panic::AssertUnwindSafe(|| {
            [un.to_sketch(HllType::Hll4), un.to_sketch(HllType::Hll6), un.to_sketch(HllType::Hll8)]
        }));
        if let Some(sks) = r {
            let sts: Vec<Value> = sks.iter().map(|s| full(&s.verif_state())).collect();
            let os: Vec<Value> = sks.iter().map(obs).collect();
            let toks: Vec<Value> = sks.iter().map(tok).collect();
            self.out.ev(json!({"op":"UToSk3","id":u,"types":[4,6,8],"to":to,"st":sts,"o":os,
                "tok":toks,"utok":utok(&un)}));
            for (i, s) in sks.into_iter().enumerate() {
                self.sk[to[i]] = Some(s);
            }
        }
        to
    }
}

/// number of distinct coupons after which the next representation change happens
fn is_transition(st_before: &VerifHllState, st_after: &VerifHllState) -> bool {
    st_before.mode != st_after.mode || st_before.lg_arr != st_after.lg_arr || st_before.cur_min != st_after.cur_min
}

/// random item stream through the public API into a triplet, observed after every prefix
fn triplet_random(out: &mut Shards, rng: &mut Rng, lgk: u8, n: usize, dup_pct: u64, rt_every: usize) {
    let mut s = Sess::new(out, "hll-triplet-random");
    let ids = s.new_triplet(lgk);
    let mut items: Vec<u64> = vec![];
    for i in 0..n {
        if s.dead {
            break;
        }
        let item = if !items.is_empty() && rng.chance(dup_pct, 100) {
            *rng.pick(&items)
        } else {
            let x = rng.next();
            items.push(x);
            x
        };
        let (slot, val) = refhash::hll_coupon(&item);
        let before = s.sk[ids[0]].as_ref().unwrap().verif_state();
        s.upd3(ids, pack(slot, val as u32), Some(item));
        if s.dead {
            break;
        }
        let after = s.sk[ids[0]].as_ref().unwrap().verif_state();
        if is_transition(&before, &after) || (i + 1).is_power_of_two() || i + 1 == n {
            for &id in &ids {
                s.chk(id);
            }
        }
        if rt_every > 0 && (i + 1) % rt_every == 0 {
            // serialize, deserialize, and keep going on the copies
            let which = rng.below(3) as usize;
            let to = s.rt(ids[which]);
            if !s.dead {
                // the original and the copy take the same further coupons: bit-identical numbers and images
                // (the whole triplet takes them, so that it stays a triplet)
                for _ in 0..3 {
                    let (sl, v) = refhash::hll_coupon(&rng.next());
                    s.upd3(ids, pack(sl, v as u32), None);
                    s.upd(to, pack(sl, v as u32));
                }
                s.cmp(ids[which], to);
                s.chk(to);
            }
        }
    }
}

/// crafted coupons through the hook: values up to 63, chosen slots
fn triplet_crafted(out: &mut Shards, scn: &str, lgk: u8, script: &[(u32, u32)], chk_every: usize) {
    let mut s = Sess::new(out, scn);
    let ids = s.new_triplet(lgk);
    for (i, &(slot, val)) in script.iter().enumerate() {
        if s.dead {
            break;
        }
        let before = s.sk[ids[0]].as_ref().unwrap().verif_state();
        s.upd3(ids, pack(slot, val), None);
        if s.dead {
            break;
        }
        let after = s.sk[ids[0]].as_ref().unwrap().verif_state();
        if is_transition(&before, &after) || (i + 1) % chk_every == 0 || i + 1 == script.len() {
            for &id in &ids {
                s.chk(id);
            }
        }
    }
}

/// Appendix B: Hll4 exceptions and cur_min shifts with a live exception map.
fn script_exceptions(lgk: u8, rng: &mut Rng) -> Vec<(u32, u32)> {
    let k = 1u32 << lgk;
    let mut v = vec![];
    let hi = k - 1;
    v.push((hi, 20)); // exception while cur_min = 0
    v.push((hi - 1, 63));
    v.push((hi - 2, 15)); // exactly at the token boundary
    v.push((hi - 2, 14));
    for s in 0..k - 3 {
        v.push((s, 1));
    }
    v.push((hi, 21)); // replace an exception
    v.push((3 % k, 16)); // new exception on a low slot
    // raise everything level by level: shifts while exceptions are live and leave the map
    for level in 2..=8u32 {
        let mut slots: Vec<u32> = (0..k).collect();
        rng.shuffle(&mut slots);
        for s in slots {
            v.push((s, level));
        }
        v.push((hi, 21 + level)); // keeps one exception ahead
        v.push((7 % k, 62));
        v.push((7 % k, 63));
        v.push((7 % k, 62));
    }
    // duplicates of everything
    let copy = v.clone();
    for c in copy.iter().step_by(3) {
        v.push(*c);
    }
    // jump many levels at once: several shifts in one update
    for s in 0..k {
        v.push((s, 30 + (s % 5)));
    }
    for s in 0..k {
        v.push((s + k * 3, 47 + (s % 17))); // slots beyond k fold onto registers
    }
    v
}

/// promotion thresholds and probe collisions in the coupon table
fn script_promotions(lgk: u8, rng: &mut Rng) -> Vec<(u32, u32)> {
    let mut v = vec![];
    // families equal in the low 5..10 bits (probe start) and in the stride bits
    let base = rng.below(32) as u32;
    for j in 0..40u32 {
        v.push((base + (j << 10), 1 + (j % 3))); // same start for every table size <= 1024
    }
    for j in 0..40u32 {
        v.push((base + 1 + (j << 11), 2)); // same start, even strides before the |1
    }
    for j in 0..(1u32 << (lgk.max(7) - 3)) {
        v.push((rng.below(1 << 26) as u32, 1 + rng.below(6) as u32));
        if j % 4 == 0 {
            let d = *rng.pick(&v);
            v.push(d);
        }
    }
    v
}

/// many simultaneous exceptions: the exception table grows and is rebuilt on shifts
fn script_many_exceptions(lgk: u8, rng: &mut Rng) -> Vec<(u32, u32)> {
    let k = 1u32 << lgk;
    let mut v = vec![];
    for s in 0..k.min(64) {
        v.push((s, 1));
    }
    let n_exc = (k / 2).min(40);
    let mut slots: Vec<u32> = (0..k).collect();
    rng.shuffle(&mut slots);
    for &s in slots.iter().take(n_exc as usize) {
        v.push((s, 16 + rng.below(40) as u32));
    }
    for &s in slots.iter().take(n_exc as usize / 2) {
        v.push((s, 60 + rng.below(4) as u32)); // replace
    }
    // shifts with a large live map
    for level in 1..=4u32 {
        for s in 0..k {
            v.push((s, level));
        }
    }
    v
}

/// one input sketch of a given shape; returns its id
fn make_input(s: &mut Sess, rng: &mut Rng, lgk: u8, t: u8, shape: u8) -> usize {
    let id = s.new_sketch(lgk, t);
    let k = 1u64 << lgk;
    let n = match shape {
        0 => 0,
        1 => rng.range(1, 7),
        2 => {
            if lgk < 8 { rng.range(1, 7) } else { rng.range(8, (3 * (k / 8)) / 4) }
        }
        _ => k + rng.below(k),
    };
    for _ in 0..n {
        if s.dead { break; }
        let item = rng.next();
        let (slot, val) = refhash::hll_coupon(&item);
        // a few large values so that Hll4 inputs carry exceptions
        let val = if shape == 3 && rng.chance(1, 50) { 16 + rng.below(40) as u32 } else { val as u32 };
        s.upd(id, pack(slot, val));
    }
    s.chk(id);
    id
}

fn union_random(out: &mut Shards, rng: &mut Rng, lgmax: u8, lgks: &[u8], histories: usize) {
    let mut s = Sess::new(out, "hll-union-random");
    // catalogue of inputs
    let mut cat: Vec<usize> = vec![];
    for shape in 0..4u8 {
        for _ in 0..2 {
            let lgk = *rng.pick(lgks);
            let t = *rng.pick(&[4u8, 6, 8]);
            let id = make_input(&mut s, rng, lgk, t, shape);
            cat.push(id);
            if rng.chance(1, 3) {
                let r = s.rt(id); // deserialized variant
                cat.push(r);
            }
        }
    }
    for _ in 0..histories {
        if s.dead { break; }
        let u = s.new_union(lgmax);
        let steps = rng.range(1, 6);
        for _ in 0..steps {
            if s.dead { break; }
            match rng.below(12) {
                0 => { for _ in 0..rng.range(1, 12) { s.uval(u, rng.next()); } }
                1 => s.ureset(u),
                _ => {
                    let src = *rng.pick(&cat);
                    s.uupd(u, src);
                }
            }
            s.uchk(u);
            let outs = s.utosk3(u);
            // results (possibly out-of-order sketches) become inputs of later unions
            if rng.chance(1, 2) && !s.dead {
                cat.push(outs[rng.below(3) as usize]);
                if rng.chance(1, 2) {
                    let r = s.rt(outs[rng.below(3) as usize]);
                    cat.push(r);
                }
            }
        }
        // repetition: feeding the same inputs again changes nothing observable
        if !s.dead && !cat.is_empty() {
            let src = *rng.pick(&cat);
            s.uupd(u, src);
            s.uupd(u, src);
            s.uchk(u);
            s.utosk3(u);
        }
    }
}

/// two unions fed the same inputs in different orders
fn union_orders(out: &mut Shards, rng: &mut Rng, lgmax: u8, lgks: &[u8]) {
    let mut s = Sess::new(out, "hll-union-orders");
    let mut ins = vec![];
    for _ in 0..rng.range(2, 4) {
        let lgk = *rng.pick(lgks);
        let t = *rng.pick(&[4u8, 6, 8]);
        let shape = rng.range(1, 3) as u8;
        ins.push(make_input(&mut s, rng, lgk, t, shape));
    }
    for _ in 0..3 {
        if s.dead { break; }
        let u = s.new_union(lgmax);
        rng.shuffle(&mut ins);
        for &i in &ins {
            s.uupd(u, i);
        }
        s.uchk(u);
        s.utosk3(u);
    }
}

/// single out-of-order Hll4/Hll6 array into an empty union (what Java/C++ unions emit)
fn union_single_ooo(out: &mut Shards, rng: &mut Rng, lgk: u8, lgmax: u8) {
    let mut s = Sess::new(out, "hll-union-single-ooo");
    let a = make_input(&mut s, rng, lgk, 8, 3);
    let b = make_input(&mut s, rng, lgk, 6, 3);
    let u0 = s.new_union(lgk.max(lgmax));
    s.uupd(u0, a);
    s.uupd(u0, b); // array into array gadget: result is out of order
    let outs = s.utosk3(u0);
    for &o in &outs {
        if s.dead { break; }
        let u = s.new_union(lgmax);
        s.uupd(u, o);
        s.uchk(u);
        let r = s.utosk3(u);
        let rt = s.rt(r[0]);
        let u2 = s.new_union(lgmax);
        s.uupd(u2, rt);
        s.uchk(u2);
        s.utosk3(u2);
    }
}

/// lg_k above 12 (where the bounds come from the analytic RSE rather than the tables): two register-mode
/// inputs, their union (out of order), its three conversions and a round trip
fn union_large_lgk(out: &mut Shards, rng: &mut Rng, lgk: u8) {
    let mut s = Sess::new(out, "hll-union-large-lgk");
    let thr = (3 * (1usize << (lgk - 3))) / 4;
    let mut ins = vec![];
    for &t in &[4u8, 8] {
        let id = s.new_sketch(lgk, t);
        for _ in 0..(thr + 40 + rng.below(200) as usize) {
            if s.dead { return; }
            let item = rng.next();
            let (slot, val) = refhash::hll_coupon(&item);
            s.upd(id, pack(slot, val as u32));
        }
        s.chk(id);
        ins.push(id);
    }
    let u = s.new_union(lgk);
    for &i in &ins {
        s.uupd(u, i);
    }
    s.uchk(u);
    let outs = s.utosk3(u);
    if !s.dead {
        let r = s.rt(outs[1]);
        let u2 = s.new_union(lgk);
        s.uupd(u2, r);
        s.uchk(u2);
    }
}

/// level inputs: every register holds the same non-zero value (an Hll4 array with cur_min >= 1 and all
/// registers at cur_min is not empty)
fn union_level(out: &mut Shards, rng: &mut Rng, lgk: u8) {
    let mut s = Sess::new(out, "hll-union-level");
    let k = 1u32 << lgk;
    let mut ins = vec![];
    for (t, v) in [(4u8, 1u32), (6, 1), (8, 2), (4, 2)] {
        let id = s.new_sketch(lgk, t);
        for slot in 0..k {
            for val in 1..=v {
                s.upd(id, pack(slot, val));
            }
        }
        s.chk(id);
        ins.push(id);
    }
    // a high floor with exceptions just above it: to_sketch(Hll4) replays the gadget in slot order, every
    // register >= 15 starts as an exception and all cur_min shifts happen in one burst at the end
    {
        let id = s.new_sketch(lgk, 8);
        for slot in 0..k {
            for val in 1..=3 {
                s.upd(id, pack(slot, val));
            }
        }
        for (i, v) in [15u32, 16, 17, 18, 30].iter().enumerate() {
            s.upd(id, pack((2 * i as u32 + 1) % k, *v));
        }
        s.chk(id);
        let u = s.new_union(lgk);
        s.uupd(u, id);
        s.uchk(u);
        let outs = s.utosk3(u);
        let u2 = s.new_union(lgk);
        s.uupd(u2, outs[0]);
        s.uchk(u2);
        s.utosk3(u2);
    }
    for &first in &[0usize, 3, 1] {
        let u = s.new_union(lgk + (rng.below(2) as u8));
        s.uupd(u, ins[first]);
        s.uchk(u);
        s.utosk3(u);
        s.uupd(u, ins[(first + 1) % 4]);
        s.uchk(u);
        let outs = s.utosk3(u);
        // a level result as an input again
        let u2 = s.new_union(lgk);
        s.uupd(u2, outs[0]);
        s.uchk(u2);
    }
}

/// an out-of-order register-mode gadget filled one value at a time, estimate and bounds after each: every
/// count of empty registers is passed through (the composite estimator switches formulas on it)
fn union_fill(out: &mut Shards, rng: &mut Rng, lgk: u8) {
    let mut s = Sess::new(out, "hll-union-fill");
    // two inputs that have just reached register mode (most registers still empty)
    let mut mk = |s: &mut Sess, t: u8| {
        let id = s.new_sketch(lgk, t);
        for _ in 0..4000 {
            if s.dead || s.sk[id].as_ref().unwrap().verif_state().mode == 2 {
                break;
            }
            let (slot, val) = refhash::hll_coupon(&rng.next());
            s.upd(id, pack(slot, val as u32));
        }
        s.chk(id);
        id
    };
    let a = mk(&mut s, 8);
    let b = mk(&mut s, 6);
    let u = s.new_union(lgk);
    s.uupd(u, a);
    s.uupd(u, b);
    s.uchk(u);
    let k = 1u64 << lgk;
    for _ in 0..(6 * k) {
        if s.dead {
            break;
        }
        s.uval(u, rng.next());
    }
    s.uchk(u);
    s.utosk3(u);
}

pub fn record_union(args: &Args) {
    let seed = args.u64("seed", 1);
    let mut rng = Rng::new(seed ^ 0x0C03);
    let thorough = args.thorough();
    let mut out = Shards::create(&args.str("out", "hllu"), args.u64("shards", 8) as usize);
    let reps = if thorough { 8 } else { 1 };
    for _ in 0..reps {
        for &(lgmax, ref lgks) in &[(4u8, vec![4u8, 5, 7]), (7, vec![4, 6, 7, 8, 9]), (8, vec![5, 8, 9, 10]),
                                   (10, vec![7, 8, 10, 11]), (12, vec![8, 10, 11])] {
            union_random(&mut out, &mut rng, lgmax, lgks, if thorough { 6 } else { 4 });
            union_orders(&mut out, &mut rng, lgmax, lgks);
            union_orders(&mut out, &mut rng, lgmax, lgks);
        }
        for &(lgk, lgmax) in &[(4u8, 4u8), (6, 8), (8, 8), (9, 7), (10, 12)] {
            union_single_ooo(&mut out, &mut rng, lgk, lgmax);
        }
        for &lgk in &[5u8, 6, 7, 8, 9] {
            union_fill(&mut out, &mut rng, lgk);
        }
        union_level(&mut out, &mut rng, 4);
        union_level(&mut out, &mut rng, 5);
        union_large_lgk(&mut out, &mut rng, 13);
        if thorough {
            union_large_lgk(&mut out, &mut rng, 14);
        }
    }
    let (runs, events) = out.finish();
    println!("{}", json!({"runs":runs,"events":events}));
}

pub fn record(args: &Args) {
    let seed = args.u64("seed", 1);
    let mut rng = Rng::new(seed);
    let thorough = args.thorough();
    let mut out = Shards::create(&args.str("out", "hll"), args.u64("shards", 8) as usize);
    let lgks: Vec<u8> = if thorough { (4..=12).collect() } else { vec![4, 5, 7, 8, 9, 10, 12] };
    let reps = if thorough { 6 } else { 1 };
    for _ in 0..reps {
        for &lgk in &lgks {
            let k = 1usize << lgk;
            let n = (5 * k).clamp(200, if thorough { 12000 } else { 5000 });
            triplet_random(&mut out, &mut rng, lgk, n, 10, n / 7 + 3);
            // many short runs around the promotion thresholds
            for _ in 0..(if thorough { 12 } else { 3 }) {
                let n2 = (k / 8 + 20).min(600) + rng.below(40) as usize;
                triplet_random(&mut out, &mut rng, lgk, n2, 25, 11);
            }
        }
        // configurations above 12 (C02 quantifies to 21): sparse modes and set growth everywhere, the
        // register array where the promotion threshold is within reach
        let big: &[(u8, usize)] = if thorough { &[(13, 1300), (14, 2300), (16, 3000), (21, 3000)] } else { &[(21, 500), (13, 900)] };
        for &(lgk, n) in big {
            triplet_random(&mut out, &mut rng, lgk, n, 10, n / 3 + 3);
        }
        for &lgk in &[4u8, 5, 6, 8] {
            let sc = script_exceptions(lgk, &mut rng);
            triplet_crafted(&mut out, "hll-crafted-exceptions", lgk, &sc, 16);
        }
        for &lgk in &[4u8, 5, 7, 9, 10] {
            let sc = script_many_exceptions(lgk, &mut rng);
            triplet_crafted(&mut out, "hll-crafted-many-exceptions", lgk, &sc, 8);
        }
        for &lgk in &[7u8, 8, 9, 10, 11, 12] {
            let sc = script_promotions(lgk, &mut rng);
            triplet_crafted(&mut out, "hll-crafted-promotions", lgk, &sc, 64);
        }
    }
    if let Some(path) = args.get("in") {
        replay_gen(&mut out, path);
    }
    let (runs, events) = out.finish();
    println!("{}", json!({"runs":runs,"events":events}));
}

/// TLC-generated behaviours: {"lgk":n,"ops":[[slot,val],...]} ("rt" entries request a round trip)
pub fn replay_gen(out: &mut Shards, path: &str) {
    let text = std::fs::read_to_string(path).expect("behaviours file");
    for line in text.lines() {
        let b: Value = serde_json::from_str(line).expect("behaviour");
        let lgk = b["lgk"].as_u64().unwrap() as u8;
        let mut s = Sess::new(out, "hll-tlc-behaviour");
        let ids = s.new_triplet(lgk);
        for op in b["ops"].as_array().unwrap() {
            if s.dead {
                break;
            }
            let slot = op[0].as_u64().unwrap() as u32;
            let val = op[1].as_u64().unwrap() as u32;
            s.upd3(ids, pack(slot, val), None);
        }
        for &id in &ids {
            s.chk(id);
        }
    }
}
