//! Counting global allocator (C14): remembers the largest single allocation request since the last
//! reset, and refuses requests above a hard limit (the refusal aborts the process, which the parent
//! of the worker observes and records as a runaway allocation).
use std::alloc::{GlobalAlloc, Layout, System};
use std::sync::atomic::{AtomicUsize, Ordering};

pub struct Counting;

pub static PEAK: AtomicUsize = AtomicUsize::new(0);
pub static HARD_LIMIT: AtomicUsize = AtomicUsize::new(usize::MAX);

fn note(size: usize) {
    PEAK.fetch_max(size, Ordering::Relaxed);
}

fn write_stderr(msg: &[u8]) {
    use std::io::Write;
    use std::os::fd::FromRawFd;
    // no allocation here: a File over fd 2, forgotten afterwards
    let mut f = unsafe { std::fs::File::from_raw_fd(2) };
    let _ = f.write_all(msg);
    std::mem::forget(f);
}

fn refuse(size: usize) {
    let mut buf = [0u8; 40];
    let mut n = size;
    let mut i = buf.len();
    buf[i - 1] = b'\n';
    i -= 1;
    loop {
        i -= 1;
        buf[i] = b'0' + (n % 10) as u8;
        n /= 10;
        if n == 0 {
            break;
        }
    }
    write_stderr(b"ALLOC-REFUSED ");
    write_stderr(&buf[i..]);
}

unsafe impl GlobalAlloc for Counting {
    unsafe fn alloc(&self, layout: Layout) -> *mut u8 {
        note(layout.size());
        if layout.size() > HARD_LIMIT.load(Ordering::Relaxed) {
            refuse(layout.size());
            return std::ptr::null_mut();
        }
        unsafe { System.alloc(layout) }
    }
    unsafe fn dealloc(&self, ptr: *mut u8, layout: Layout) {
        unsafe { System.dealloc(ptr, layout) }
    }
    unsafe fn alloc_zeroed(&self, layout: Layout) -> *mut u8 {
        note(layout.size());
        if layout.size() > HARD_LIMIT.load(Ordering::Relaxed) {
            refuse(layout.size());
            return std::ptr::null_mut();
        }
        unsafe { System.alloc_zeroed(layout) }
    }
    unsafe fn realloc(&self, ptr: *mut u8, layout: Layout, new_size: usize) -> *mut u8 {
        note(new_size);
        if new_size > HARD_LIMIT.load(Ordering::Relaxed) {
            refuse(new_size);
            return std::ptr::null_mut();
        }
        unsafe { System.realloc(ptr, layout, new_size) }
    }
}

pub fn reset_peak() {
    PEAK.store(0, Ordering::Relaxed);
}
pub fn peak() -> usize {
    PEAK.load(Ordering::Relaxed)
}
