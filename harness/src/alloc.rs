//! Counting global allocator (C14): remembers the largest single allocation request since the last
//! reset, and refuses requests above a hard limit (the refusal aborts the process, which the parent
//! of the worker observes and records as a runaway allocation).
use std::alloc::{GlobalAlloc, Layout, System};
use std::sync::atomic::{AtomicUsize, Ordering};

pub struct Counting;

pub static PEAK: AtomicUsize = AtomicUsize::new(0);
pub static HARD_LIMIT: AtomicUsize = AtomicUsize::new(usize::MAX);
/// requests above this size that set a new peak have their call site recorded (C14)
pub static CAPTURE_ABOVE: AtomicUsize = AtomicUsize::new(usize::MAX);
static SITE: std::sync::Mutex<Option<String>> = std::sync::Mutex::new(None);

thread_local! {
    // set while a backtrace is being captured: the allocations that needs go straight to the system
    static BUSY: std::cell::Cell<bool> = const { std::cell::Cell::new(false) };
}

fn busy() -> bool {
    BUSY.try_with(|b| b.get()).unwrap_or(true)
}

/// innermost frame of the library under test: "module::Type<T>::function"
fn site_of(bt: &str) -> String {
    let lines: Vec<&str> = bt.lines().collect();
    for i in 0..lines.len().saturating_sub(1) {
        let at = lines[i + 1].trim();
        if at.starts_with("at ") && at.contains("/datasketches/src/") && !at.contains("/src/verif.rs") {
            let f = lines[i].trim();
            let f = f.split_once(": ").map(|x| x.1).unwrap_or(f);
            // function name without its path and generic arguments (which instance of a generic
            // function survives code folding is the linker's choice), plus the source file
            let mut plain = String::new();
            let mut depth = 0;
            for ch in f.chars() {
                match ch {
                    '<' => depth += 1,
                    '>' => depth -= 1,
                    c if depth == 0 => plain.push(c),
                    _ => {}
                }
            }
            let f = plain.rsplit("::").next().unwrap_or(&plain).to_string();
            let file = at.split("/datasketches/src/").nth(1).unwrap_or("").split(':').next().unwrap_or("");
            return format!("{file}:{f}");
        }
    }
    "outside-the-library".to_string()
}

fn capture() -> String {
    let _ = BUSY.try_with(|b| b.set(true));
    let bt = std::backtrace::Backtrace::force_capture().to_string();
    let s = site_of(&bt);
    let _ = BUSY.try_with(|b| b.set(false));
    s
}

fn note(size: usize) {
    let prev = PEAK.fetch_max(size, Ordering::Relaxed);
    if size > prev && size > CAPTURE_ABOVE.load(Ordering::Relaxed) && size <= HARD_LIMIT.load(Ordering::Relaxed) {
        let s = capture();
        let _ = BUSY.try_with(|b| b.set(true));
        if let Ok(mut g) = SITE.lock() {
            *g = Some(s);
        }
        let _ = BUSY.try_with(|b| b.set(false));
    }
}

/// the site of the current peak (if it was above CAPTURE_ABOVE)
pub fn peak_site() -> String {
    SITE.lock().ok().and_then(|g| g.clone()).unwrap_or_else(|| "unknown".to_string())
}

fn write_stderr(msg: &[u8]) {
    use std::io::Write;
    use std::os::fd::FromRawFd;
    // no allocation here: a File over fd 2, forgotten afterwards
    let mut f = unsafe { std::fs::File::from_raw_fd(2) };
    let _ = f.write_all(msg);
    std::mem::forget(f);
}

fn refuse(size: usize) {
    let mut buf = [0u8; 40];
    let mut n = size;
    let mut i = buf.len();
    buf[i - 1] = b'\n';
    i -= 1;
    loop {
        i -= 1;
        buf[i] = b'0' + (n % 10) as u8;
        n /= 10;
        if n == 0 {
            break;
        }
    }
    write_stderr(b"ALLOC-REFUSED ");
    write_stderr(&buf[i..]);
    // the process is about to abort: name the requester first
    let s = capture();
    write_stderr(b"ALLOC-SITE ");
    write_stderr(s.as_bytes());
    write_stderr(b"\n");
}

unsafe impl GlobalAlloc for Counting {
    unsafe fn alloc(&self, layout: Layout) -> *mut u8 {
        if busy() {
            return unsafe { System.alloc(layout) };
        }
        note(layout.size());
        if layout.size() > HARD_LIMIT.load(Ordering::Relaxed) {
            refuse(layout.size());
            return std::ptr::null_mut();
        }
        unsafe { System.alloc(layout) }
    }
    unsafe fn dealloc(&self, ptr: *mut u8, layout: Layout) {
        unsafe { System.dealloc(ptr, layout) }
    }
    unsafe fn alloc_zeroed(&self, layout: Layout) -> *mut u8 {
        if busy() {
            return unsafe { System.alloc_zeroed(layout) };
        }
        note(layout.size());
        if layout.size() > HARD_LIMIT.load(Ordering::Relaxed) {
            refuse(layout.size());
            return std::ptr::null_mut();
        }
        unsafe { System.alloc_zeroed(layout) }
    }
    unsafe fn realloc(&self, ptr: *mut u8, layout: Layout, new_size: usize) -> *mut u8 {
        if busy() {
            return unsafe { System.realloc(ptr, layout, new_size) };
        }
        note(new_size);
        if new_size > HARD_LIMIT.load(Ordering::Relaxed) {
            refuse(new_size);
            return std::ptr::null_mut();
        }
        unsafe { System.realloc(ptr, layout, new_size) }
    }
}

pub fn reset_peak() {
    PEAK.store(0, Ordering::Relaxed);
    let _ = BUSY.try_with(|b| b.set(true));
    if let Ok(mut g) = SITE.lock() {
        *g = None;
    }
    let _ = BUSY.try_with(|b| b.set(false));
}
pub fn peak() -> usize {
    PEAK.load(Ordering::Relaxed)
}
