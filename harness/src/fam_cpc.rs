//! CPC sketch / union: drive the real objects and record traces for Trace_Cpc.tla.
use datasketches::common::NumStdDev;
use datasketches::cpc::{CpcSketch, CpcUnion, CpcWrapper, VerifCpcState};
use serde_json::{Value, json};

use crate::refhash;
use crate::util::*;

/// (row, col) of an item: row = h1 & (k-1), col = min(63, leading_zeros(h2)), MurmurHash3 seed 9001
pub fn row_col_of(item: u64, lgk: u8) -> (u32, u32) {
    let (h1, h2) = refhash::murmur3_x64_128(&refhash::hashed_bytes(&item), 9001);
    let row = (h1 & ((1u64 << lgk) - 1)) as u32;
    let col = h2.leading_zeros().min(63);
    (row, col)
}

fn bits_of(x: u64) -> Vec<u32> {
    (0..64).filter(|b| x >> b & 1 == 1).collect()
}

fn sc(st: &VerifCpcState) -> Value {
    json!({"c": st.num_coupons, "off": st.window_offset, "fic": st.first_interesting_column,
           "nt": st.table.len(), "w": !st.sliding_window.is_empty()})
}

fn seven(sk: &CpcSketch) -> [f64; 7] {
    [
        sk.lower_bound(NumStdDev::Three),
        sk.lower_bound(NumStdDev::Two),
        sk.lower_bound(NumStdDev::One),
        sk.estimate(),
        sk.upper_bound(NumStdDev::One),
        sk.upper_bound(NumStdDev::Two),
        sk.upper_bound(NumStdDev::Three),
    ]
}

fn seven_w(sk: &CpcWrapper) -> [f64; 7] {
    [
        sk.lower_bound(NumStdDev::Three),
        sk.lower_bound(NumStdDev::Two),
        sk.lower_bound(NumStdDev::One),
        sk.estimate(),
        sk.upper_bound(NumStdDev::One),
        sk.upper_bound(NumStdDev::Two),
        sk.upper_bound(NumStdDev::Three),
    ]
}

fn toks(s: &[f64; 7]) -> Value {
    json!(s.iter().map(|x| fhex(*x)).collect::<Vec<_>>())
}

fn obs(sk: &CpcSketch) -> Value {
    let s = seven(sk);
    // relative error advertised by the one-sigma bounds (10^-6 units); meaningful once the lower bound is
    // not clamped to the coupon count and the ceiling of the upper bound is negligible
    let k = (1u64 << sk.lg_k()) as f64;
    let big = s[3] >= 20.0 * k && s[2] > sk.num_coupons() as f64;
    json!({"b": ranks(&s), "emp": sk.is_empty(), "c": sk.num_coupons(), "rel": crate::fam_hll::rel6(&s), "big": big})
}

fn full_fields(sk: &CpcSketch) -> Value {
    let st = sk.verif_state();
    let mut tab: Vec<(u32, u32)> = st.table.iter().map(|&rc| (rc >> 6, rc & 63)).collect();
    tab.sort();
    json!({
        "st": sc(&st),
        "tab": tab.iter().map(|(r, c)| json!([r, c])).collect::<Vec<_>>(),
        "win": st.sliding_window.iter().map(|&b| bits_of(b as u64)).collect::<Vec<_>>(),
        "mat": st.bit_matrix.iter().map(|&w| bits_of(w)).collect::<Vec<_>>(),
        "merged": st.merge_flag,
        "valid": sk.validate(),
        "o": obs(sk),
    })
}

pub struct Sess<'a> {
    out: &'a mut Shards,
    sk: Vec<Option<CpcSketch>>,
    un: Vec<CpcUnion>,
    pub dead: bool,
    nupd: u64,
}

impl<'a> Sess<'a> {
    pub fn new(out: &'a mut Shards, scn: &str) -> Self {
        out.next_run(scn);
        Sess { out, sk: vec![], un: vec![], dead: false, nupd: 0 }
    }
    fn panic(&mut self, what: &str, e: String) {
        self.out.ev(json!({"op":"Panic","in":what,"key":e.split(": ").next().unwrap_or(""),"msg":e}));
        self.dead = true;
    }
    pub fn new_sketch(&mut self, lgk: u8) -> usize {
        let id = self.sk.len();
        self.sk.push(Some(CpcSketch::new(lgk)));
        self.out.ev(json!({"op":"PNew","id":id,"lgk":lgk}));
        id
    }
    pub fn get(&self, id: usize) -> &CpcSketch {
        self.sk[id].as_ref().unwrap()
    }
    /// item = Some(x): public update(x); None: crafted (row, col) through the hook
    pub fn upd(&mut self, id: usize, row: u32, col: u32, item: Option<u64>) {
        if self.dead {
            return;
        }
        let mut sk = self.sk[id].take().unwrap();
        let r = catch(std::panic::AssertUnwindSafe(|| {
            match item {
                Some(x) => sk.update(x),
                None => sk.verif_row_col_update((row << 6) | col),
            }
            // every state must be serializable (C17) and its image readable again, to the same bytes (C11): the
            // length of the compressed streams depends on every coupon (the image itself is looked at in the checkpoints)
            let mut rtok = None;
            if sk.lg_k() <= 10 {
                let b = sk.serialize();
                rtok = Some(matches!(CpcSketch::deserialize(&b), Ok(d) if d.serialize() == b));
            }
            (sk, rtok)
        }));
        match r {
            Ok((sk, rtok)) => {
                let st = sk.verif_state();
                let mut v = json!({"op":"PUpd","id":id,"rc":[row,col],"st":sc(&st),"o":obs(&sk)});
                if let Some(ok) = rtok {
                    v["rtok"] = json!(ok);
                }
                // the writer's table selectors after every update (the thresholds are narrow bands of C)
                if st.lg_k <= 14 && st.num_coupons > 0 {
                    let (k, c) = (1u64 << st.lg_k, st.num_coupons as u64);
                    let hybrid = 32 * c >= 3 * k && 2 * c < k;
                    let pairs = if hybrid { c as u32 } else { st.table.len() as u32 };
                    let (ph, bb) = datasketches::verif::cpc_format_selectors(st.lg_k, st.num_coupons, pairs);
                    v["sel"] = json!([ph, bb]);
                    v["selp"] = json!(pairs);
                }
                self.nupd += 1;
                let deleted = col < st.window_offset as u32 && !st.sliding_window.is_empty();
                if (deleted || self.nupd % 8 == 0) && sk.lg_k() <= 12 {
                    let slots = sk.verif_table_slots();
                    if !slots.is_empty() {
                        v["tlg"] = json!(slots.len().trailing_zeros());
                        v["ts"] = json!(slots.iter().map(|&x| if x == u32::MAX { -1i64 } else { x as i64 }).collect::<Vec<_>>());
                    }
                }
                self.out.ev(v);
                self.sk[id] = Some(sk);
            }
            Err(e) => {
                self.sk[id] = Some(CpcSketch::new(4)); // the run is over (dead); keep the slot valid
                self.panic("update", e)
            }
        }
    }
    pub fn chk(&mut self, id: usize) {
        if self.dead {
            return;
        }
        let sk = self.sk[id].as_ref().unwrap();
        let r = catch(std::panic::AssertUnwindSafe(|| sk.serialize().len()));
        let len = match r {
            Ok(l) => l,
            Err(e) => return self.panic("serialize", e),
        };
        let sk = self.sk[id].as_ref().unwrap();
        let mut v = full_fields(sk);
        v["op"] = json!("PChk");
        v["id"] = json!(id);
        v["len"] = json!(len);
        // the kxp register as the image holds it (un-merged sketches with coupons): kxp * 2^64 as an integer
        if !sk.verif_state().merge_flag && sk.num_coupons() > 0 && sk.lg_k() <= 12 {
            let img = sk.serialize();
            let st0 = sk.verif_state();
            let k = 1u64 << st0.lg_k;
            let c = st0.num_coupons as u64;
            let has_window = 8 * c >= 4 * k && 2 * c >= k;
            let sparse_or_hybrid = 2 * c < k;
            let has_table = sparse_or_hybrid || (has_window && !st0.table.is_empty());
            let both = has_table && has_window;
            let off = 8 + 4 + if both { 4 } else { (if has_table { 4 } else { 0 }) + (if has_window { 4 } else { 0 }) };
            if img.len() >= off + 8 {
                let kxp = f64::from_le_bytes(img[off..off + 8].try_into().unwrap());
                let y = kxp * 2f64.powi(64);
                if y.is_finite() && y >= 0.0 && y.fract() == 0.0 && y < 1.2e24 {
                    let u = y as u128;
                    v["kxp"] = json!((0..5).map(|i| ((u >> (16 * i)) & 0xffff) as u64).collect::<Vec<_>>());
                } else {
                    v["kxp"] = json!([70000, 70000, 70000, 70000, 70000]);
                }
            }
        }
        // C12: the writer's table selectors for this state (pairs in the encoded stream: all coupons for Hybrid)
        {
            let st = sk.verif_state();
            let k = 1u64 << st.lg_k;
            let c = st.num_coupons as u64;
            if st.lg_k <= 14 && c > 0 {
                let hybrid = 32 * c >= 3 * k && 2 * c < k;
                let pairs = if hybrid { c as u32 } else { st.table.len() as u32 };
                let (ph, bb) = datasketches::verif::cpc_format_selectors(st.lg_k, st.num_coupons, pairs);
                v["sel"] = json!([ph, bb]);
                v["selp"] = json!(pairs);
            }
        }
        // C12: preamble fields for the specification's header (word counts are read back from the image)
        {
            let img = sk.serialize();
            let st = sk.verif_state();
            let k = 1u64 << st.lg_k;
            let c = st.num_coupons as u64;
            let has_window = 8 * c >= 4 * k && c > 0 && 2 * c >= k;
            let sparse_or_hybrid = c > 0 && 2 * c < k;
            let has_table = sparse_or_hybrid || (has_window && !st.table.is_empty());
            let has_hip = !st.merge_flag;
            let both = has_table && has_window;
            let rd = |o: usize| u32::from_le_bytes(img[o..o + 4].try_into().unwrap());
            let mut o = 8;
            let (mut nt, mut nw) = (0u32, 0u32);
            let mut hipb: Vec<u8> = vec![0; 16];
            if c > 0 {
                o += 4;
                if both {
                    o += 4;
                    if has_hip {
                        hipb = img[o..o + 16].to_vec();
                        o += 16;
                    }
                }
                if has_table {
                    nt = rd(o);
                    o += 4;
                }
                if has_window {
                    nw = rd(o);
                    o += 4;
                }
                if has_hip && !both {
                    hipb = img[o..o + 16].to_vec();
                }
            }
            if img.len() <= 1500 {
                v["img"] = json!(img);
                v["sh"] = json!(crate::refhash::seed_hash(9001).to_le_bytes().to_vec());
                v["hipb"] = json!(hipb);
                v["nt"] = json!(nt);
                v["nw"] = json!(nw);
            }
        }
        let maxlen = CpcSketch::max_serialized_bytes(sk.lg_k());
        v["maxlen"] = json!(maxlen);
        v["over"] = json!(len > maxlen);
        self.out.ev(v);
    }
    pub fn rt(&mut self, id: usize) -> usize {
        let to = self.sk.len();
        self.sk.push(None);
        if self.dead {
            return to;
        }
        let sk = self.sk[id].clone().unwrap();
        let r = catch(std::panic::AssertUnwindSafe(|| {
            let bytes = sk.serialize();
            let back = CpcSketch::deserialize(&bytes).map_err(|e| format!("{e:?}"));
            let wrap = CpcWrapper::new(&bytes).map_err(|e| format!("{e:?}"));
            (bytes, back, wrap)
        }));
        match r {
            Ok((bytes, Ok(b), Ok(w))) => {
                let again = b.serialize();
                let mut v = full_fields(&b);
                v["op"] = json!("PRT");
                v["id"] = json!(id);
                v["to"] = json!(to);
                v["tok"] = json!([toks(&seven(&sk)), toks(&seven(&b)), toks(&seven_w(&w))]);
                v["same"] = json!(again == bytes);
                // C01: the wrapper's own bounds and estimate (order projection; relative spread as for a sketch)
                let sw = seven_w(&w);
                v["wb"] = json!(ranks(&sw));
                v["wrel"] = crate::fam_hll::rel6(&sw);
                v["wrap_lgk"] = json!(w.lg_k());
                v["wrap_emp"] = json!(w.is_empty());
                self.out.ev(v);
                self.sk[to] = Some(b);
            }
            Ok((_, Err(e), _)) | Ok((_, _, Err(e))) => {
                self.out.ev(json!({"op":"Panic","in":"deserialize-own-image","key":"Err","msg":e}));
                self.dead = true;
            }
            Err(e) => self.panic("roundtrip", e),
        }
        to
    }
    /// the same further items into a sketch and its decoded copy: estimate and bounds stay bit-identical
    pub fn cont(&mut self, a: usize, b: usize, rng: &mut Rng, n: usize) {
        for _ in 0..n {
            if self.dead {
                return;
            }
            let x = rng.next();
            let lgk = self.get(a).lg_k();
            let (r, c) = row_col_of(x, lgk);
            self.upd(a, r, c, Some(x));
            self.upd(b, r, c, Some(x));
        }
        if self.dead {
            return;
        }
        let (ta, tb) = (toks(&seven(self.get(a))), toks(&seven(self.get(b))));
        let same = ta == tb && self.get(a).serialize() == self.get(b).serialize();
        self.out.ev(json!({"op":"PCmp","a":a,"b":b,"same":same,"tok":[ta, tb]}));
    }
    pub fn new_union(&mut self, lgk: u8) -> usize {
        let id = self.un.len();
        self.un.push(CpcUnion::new(lgk));
        self.out.ev(json!({"op":"PUNew","id":id,"lgk":lgk}));
        id
    }
    pub fn uupd(&mut self, u: usize, src: usize) {
        if self.dead {
            return;
        }
        let s = self.sk[src].clone().unwrap();
        let r = catch(std::panic::AssertUnwindSafe(|| self.un[u].update(&s)));
        if let Err(e) = r {
            return self.panic("union.update", e);
        }
        let (lgk, mat, _) = self.un[u].verif_state();
        let v = json!({"op":"PUUpd","id":u,"src":src,"st":{"lgk":lgk,"ismat":mat.is_some(),"c":self.un[u].num_coupons()}});
        self.out.ev(v);
    }
    pub fn utosk(&mut self, u: usize) -> usize {
        let to = self.sk.len();
        self.sk.push(None);
        if self.dead {
            return to;
        }
        let r = catch(std::panic::AssertUnwindSafe(|| self.un[u].to_sketch()));
        match r {
            Ok(sk) => {
                let mut v = full_fields(&sk);
                v["op"] = json!("PUToSk");
                v["id"] = json!(u);
                v["to"] = json!(to);
                v["lgk"] = json!(sk.lg_k());
                self.out.ev(v);
                self.sk[to] = Some(sk);
            }
            Err(e) => self.panic("union.to_sketch", e),
        }
        to
    }
}

/// public-API stream of random items
pub fn stream_public(s: &mut Sess, rng: &mut Rng, id: usize, lgk: u8, n: usize, chk_every: usize) {
    let mut items: Vec<u64> = vec![];
    for i in 0..n {
        if s.dead {
            break;
        }
        let x = if !items.is_empty() && rng.chance(1, 12) { *rng.pick(&items) } else { rng.next() };
        items.push(x);
        let (r, c) = row_col_of(x, lgk);
        let off_before = s.get(id).verif_state().window_offset;
        s.upd(id, r, c, Some(x));
        if s.dead {
            break;
        }
        let off_after = s.get(id).verif_state().window_offset;
        if off_before != off_after || (i + 1) % chk_every == 0 || i + 1 == n {
            s.chk(id);
        }
    }
}

/// Appendix B: crafted (row, col) coupons that walk Empty -> Sparse -> Hybrid -> Pinned -> Sliding and
/// window offsets 1..56: columns are filled left to right leaving holes (surprising zeros once the
/// window has passed), with late-column coupons ahead of the window, duplicates, and holes closed late.
pub fn crafted_walk(s: &mut Sess, rng: &mut Rng, id: usize, lgk: u8, upto_col: u32) {
    let k = 1u32 << lgk;
    let mut holes: Vec<(u32, u32)> = vec![];
    for col in 0..upto_col {
        let mut rows: Vec<u32> = (0..k).collect();
        rng.shuffle(&mut rows);
        for &row in &rows {
            if s.dead {
                return;
            }
            // window offsets 1..56 only: stop before the coupon count that would ask for offset 57
            // (unreachable through hashing: it needs ~93% of all k x 64 bits set)
            if 8 * (s.get(id).num_coupons() as u64 + 3) >= (27 + 8 * 56) * k as u64 {
                s.chk(id);
                return;
            }
            if rng.chance(1, 9) && col < 60 {
                holes.push((row, col));
                continue;
            }
            let off_before = s.get(id).verif_state().window_offset;
            s.upd(id, row, col, None);
            if s.dead {
                return;
            }
            if rng.chance(1, 10) {
                // late surprise: at offset + 8, at 63, or anywhere ahead
                let off = s.get(id).verif_state().window_offset as u32;
                let c2 = match rng.below(3) {
                    0 => (off + 8).min(63),
                    1 => 63,
                    _ => (col + 9 + rng.below(20) as u32).min(63),
                };
                s.upd(id, rng.below(k as u64) as u32, c2, None);
            }
            if rng.chance(1, 15) {
                s.upd(id, row, col, None); // duplicate
            }
            if rng.chance(1, 12) && !holes.is_empty() {
                let i = rng.below(holes.len() as u64) as usize;
                let (hr, hc) = holes.swap_remove(i);
                s.upd(id, hr, hc, None); // close an early-zone hole late (inverted logic)
            }
            if s.dead {
                return;
            }
            let off_after = s.get(id).verif_state().window_offset;
            if off_after != off_before {
                s.chk(id);
                if rng.chance(1, 4) {
                    let r = s.rt(id);
                    let _ = r;
                }
            }
        }
        if col % 4 == 3 {
            s.chk(id);
        }
    }
    // close every remaining hole
    while let Some((hr, hc)) = holes.pop() {
        s.upd(id, hr, hc, None);
    }
    s.chk(id);
}

/// build an input sketch of a given flavor class: 0 empty, 1 sparse, 2 hybrid, 3 pinned, 4 sliding
fn make_input(s: &mut Sess, rng: &mut Rng, lgk: u8, flavor: u8) -> usize {
    let id = s.new_sketch(lgk);
    let k = 1u64 << lgk;
    let target: u64 = match flavor {
        0 => 0,
        1 => (3 * k / 32).saturating_sub(1).max(1).min(3 * k / 32 + if lgk == 4 { 0 } else { 0 }),
        2 => (3 * k / 32 + 1).max(2) + rng.below((k / 2 - 3 * k / 32).max(1) / 2),
        3 => k / 2 + rng.below(2 * k),
        _ => 27 * k / 8 + rng.below(3 * k),
    };
    if flavor >= 3 && lgk <= 8 && rng.chance(1, 2) {
        // crafted walk up to roughly the target coupon count
        let cols = ((target / k) + 2).min(63) as u32;
        crafted_walk(s, rng, id, lgk, cols);
    } else {
        let mut n = 0u64;
        while (s.get(id).num_coupons() as u64) < target && n < 40 * target + 100 && !s.dead {
            let x = rng.next();
            let (r, c) = row_col_of(x, lgk);
            s.upd(id, r, c, Some(x));
            n += 1;
        }
    }
    s.chk(id);
    id
}

fn union_random(out: &mut Shards, rng: &mut Rng, ulgk: u8, lgks: &[u8], n_inputs: usize, histories: usize) {
    let mut s = Sess::new(out, "cpc-union-random");
    let mut cat = vec![];
    for i in 0..n_inputs {
        let lgk = *rng.pick(lgks);
        let flavor = (i % 5) as u8;
        let id = make_input(&mut s, rng, lgk, flavor);
        cat.push(id);
        if rng.chance(1, 3) && !s.dead {
            let r = s.rt(id);
            cat.push(r);
        }
    }
    for _ in 0..histories {
        if s.dead {
            break;
        }
        let u = s.new_union(ulgk);
        let first = s.utosk(u);
        let _ = first;
        let steps = rng.range(1, 6);
        for _ in 0..steps {
            let src = *rng.pick(&cat);
            s.uupd(u, src);
            let r = s.utosk(u);
            if rng.chance(1, 3) && !s.dead {
                // a merged result keeps taking updates (its estimator is ICON on the coupon count)
                let lgk = s.get(r).lg_k();
                let more = 12 + rng.below(40) as usize;
                stream_public(&mut s, rng, r, lgk, more, 17);
            }
            if rng.chance(1, 3) && !s.dead {
                cat.push(r); // merged results become inputs
            }
            if rng.chance(1, 4) {
                s.uupd(u, src); // repetition
                s.utosk(u);
            }
        }
        // same inputs, other order
    }
}

/// a well-filled Sparse source of large lg_k folded into a small, still sketch-shaped accumulator (one
/// walk takes it past Hybrid / Pinned), and chains of ever smaller Sparse sources into a Sparse accumulator
fn union_sparse_cases(out: &mut Shards, rng: &mut Rng) {
    for &(ulgk, slgk) in &[(4u8, 12u8), (5, 12), (4, 11), (5, 11), (6, 12)] {
        let mut s = Sess::new(out, "cpc-union-sparse-big");
        let k = 1u64 << slgk;
        let src = s.new_sketch(slgk);
        let target = 3 * k / 32 - 1 - rng.below(4);
        let mut n = 0;
        while (s.get(src).num_coupons() as u64) < target && n < 100_000 && !s.dead {
            let x = rng.next();
            let (r, c) = row_col_of(x, slgk);
            s.upd(src, r, c, Some(x));
            n += 1;
        }
        s.chk(src);
        let u = s.new_union(ulgk);
        if rng.chance(1, 2) {
            // the accumulator may already hold a few coupons
            let small = make_input(&mut s, rng, ulgk, 1);
            s.uupd(u, small);
            s.utosk(u);
        }
        s.uupd(u, src);
        let r = s.utosk(u);
        s.chk(r);
        s.uupd(u, src);
        s.utosk(u);
    }
    for &lgks in &[[12u8, 10, 8], [11, 9, 7], [12, 11, 10], [10, 6, 4]] {
        let mut s = Sess::new(out, "cpc-union-sparse-chain");
        let u = s.new_union(12);
        for &lgk in &lgks {
            let id = s.new_sketch(lgk);
            for _ in 0..rng.range(1, 3) {
                let x = rng.next();
                let (r, c) = row_col_of(x, lgk);
                s.upd(id, r, c, Some(x));
            }
            s.uupd(u, id);
            let r = s.utosk(u);
            s.chk(r);
        }
    }
}

/// a union whose result just crosses the Sliding threshold (27 K / 8 coupons): some rows are still empty
fn union_threshold(out: &mut Shards, rng: &mut Rng, lgk: u8) {
    let mut s = Sess::new(out, "cpc-union-threshold");
    let k = 1u64 << lgk;
    let each = 27 * k / 16 + k / 8;
    let mut ins = vec![];
    for _ in 0..2 {
        let id = s.new_sketch(lgk);
        let mut n = 0;
        while (s.get(id).num_coupons() as u64) < each && n < 100 * each && !s.dead {
            let x = rng.next();
            let (r, c) = row_col_of(x, lgk);
            s.upd(id, r, c, Some(x));
            n += 1;
        }
        ins.push(id);
    }
    let u = s.new_union(lgk);
    s.uupd(u, ins[0]);
    s.utosk(u);
    s.uupd(u, ins[1]);
    let r = s.utosk(u);
    s.chk(r);
    let u2 = s.new_union(lgk);
    s.uupd(u2, r);
    let r2 = s.utosk(u2);
    s.chk(r2);
}

/// the same with crafted coupons that leave some rows empty while the union's result is Sliding
/// (for hashed items an empty row at that fill is a 1-in-4000 event per row)
fn union_threshold_crafted(out: &mut Shards, lgk: u8) {
    let mut s = Sess::new(out, "cpc-union-threshold");
    let k = 1u32 << lgk;
    let empty_rows = [0u32, k / 2, k - 1];
    let mut ins = vec![];
    for half in 0..2u32 {
        let id = s.new_sketch(lgk);
        for r in 0..k {
            if empty_rows.contains(&r) {
                continue;
            }
            // columns 0..5 split between the two inputs, plus one scattered higher column
            for c in (3 * half)..(3 * half + 3) {
                s.upd(id, r, c, None);
            }
            if r % 3 == half {
                s.upd(id, r, 9 + (r % 7), None);
            }
        }
        s.chk(id);
        ins.push(id);
    }
    let u = s.new_union(lgk);
    s.uupd(u, ins[0]);
    s.utosk(u);
    s.uupd(u, ins[1]);
    let r = s.utosk(u);
    s.chk(r);
    // the result as an input again changes nothing
    s.uupd(u, r);
    let r2 = s.utosk(u);
    s.chk(r2);
}

pub fn record(args: &Args) {
    let seed = args.u64("seed", 1);
    let mut rng = Rng::new(seed ^ 0xC9C);
    let thorough = args.thorough();
    let what = args.str("what", "sketch");
    let mut out = Shards::create(&args.str("out", "cpc"), args.u64("shards", 8) as usize);
    let reps = if thorough { 4 } else { 1 };
    for rep in 0..reps {
        if what == "sketch" || what == "all" {
            for &lgk in &[4u8, 5, 6, 7, 8] {
                let k = 1usize << lgk;
                let mut s = Sess::new(&mut out, "cpc-public-stream");
                let id = s.new_sketch(lgk);
                stream_public(&mut s, &mut rng, id, lgk, (60 * k).min(if thorough { 20000 } else { 6000 }), 97);
                let r = s.rt(id);
                s.cont(id, r, &mut rng, 60);
                stream_public(&mut s, &mut rng, r, lgk, 50, 25);
                // round trips at the start of a sketch's life: empty, then after 1, 2, 3 items
                let e = s.new_sketch(lgk);
                for step in 0..4 {
                    let c = s.rt(e);
                    s.cont(e, c, &mut rng, if step == 0 { 5 } else { 1 });
                }
            }
            for &lgk in &[4u8, 4, 5, 6] {
                let mut s = Sess::new(&mut out, "cpc-crafted-walk");
                let id = s.new_sketch(lgk);
                crafted_walk(&mut s, &mut rng, id, lgk, 64);
                let r = s.rt(id);
                s.chk(r);
            }
            // coupons clustered in row bands: the sorted pairs then contain row gaps of many times the mean
            // spacing (long unary codes in the compressed table), which hashed streams practically never do
            for &(lgk, ref bands) in &[
                (12u8, vec![(0u32, 40u32, 1usize), (3100, 4095, 70)]),
                (12, vec![(0, 300, 40), (2600, 4095, 40)]),
                (12, vec![(4000, 4095, 30)]),
                (12, vec![(0, 10, 8), (2048, 2050, 3), (4090, 4095, 5)]),
                (10, vec![(0, 100, 48), (900, 1023, 60)]),       // hybrid flavor
                (10, vec![(1000, 1023, 20)]),
                (8, vec![(0, 3, 2), (250, 255, 4)]),
            ] {
                let mut s = Sess::new(&mut out, "cpc-clustered-rows");
                let id = s.new_sketch(lgk);
                for &(lo, hi, n) in bands {
                    for _ in 0..n {
                        let row = lo + rng.below((hi - lo + 1) as u64) as u32;
                        let col = if rng.chance(1, 3) { 8 + rng.below(30) as u32 } else { rng.below(8) as u32 };
                        s.upd(id, row, col, None);
                    }
                    let r = s.rt(id);
                    s.chk(r);
                }
                let r = s.rt(id);
                s.cont(id, r, &mut rng, 20);
            }
            if rep == 0 || thorough {
                for &lgk in &[7u8, 8] {
                    let mut s = Sess::new(&mut out, "cpc-crafted-walk");
                    let id = s.new_sketch(lgk);
                    crafted_walk(&mut s, &mut rng, id, lgk, if lgk == 7 { 40 } else { 24 });
                }
                let larger: &[u8] = if thorough && rep == 0 { &[10, 12, 13, 14] } else { &[10, 12] };
                for &lgk in larger {
                    let k = 1usize << lgk;
                    let mut s = Sess::new(&mut out, "cpc-public-stream");
                    let id = s.new_sketch(lgk);
                    stream_public(&mut s, &mut rng, id, lgk, if lgk == 10 { 5 * k } else if lgk == 12 { k } else if lgk == 13 { 3 * k } else { 2 * k }, 1500);
                    let r = s.rt(id);
                    s.chk(r);
                }
            }
        }
        if what == "union" || what == "all" {
            for &(ulgk, ref lgks) in &[(4u8, vec![4u8, 5, 6]), (5, vec![4, 5, 6, 7]), (8, vec![4, 6, 8]), (6, vec![6, 7, 8]), (11, vec![4, 5, 8])] {
                union_random(&mut out, &mut rng, ulgk, lgks, if thorough { 12 } else { 10 }, if thorough { 14 } else { 10 });
            }
            union_sparse_cases(&mut out, &mut rng);
            for &lgk in &[4u8, 5, 6, 7] {
                union_threshold_crafted(&mut out, lgk);
            }
            for &lgk in if thorough { &[6u8, 8, 9, 10, 12][..] } else { &[6u8, 8, 9][..] } {
                union_threshold(&mut out, &mut rng, lgk);
            }
        }
    }
    let (runs, events) = out.finish();
    println!("{}", json!({"runs":runs,"events":events}));
}
