//! HLL image variants (C12/C13): an independent Rust encoder of every cross-language variant, written
//! from the format description (Java PreambleUtil / C++ HllUtil), not from the library's writer.
use datasketches::hll::{HllSketch, VerifHllState};
use serde_json::{Value, json};

use crate::fam_hll::{Sess, full, obs, pack};
use crate::util::*;

fn coupon_bytes(c: u32, out: &mut Vec<u8>) {
    out.extend_from_slice(&c.to_le_bytes());
}

fn mode_byte(st: &VerifHllState) -> u8 {
    let t = match st.hll_type {
        4 => 0,
        6 => 1,
        _ => 2,
    };
    st.mode | (t << 2)
}

/// Java/C++ LG_AUX_ARR_INTS
fn lg_aux_arr_ints(lgk: u8) -> u8 {
    [0u8, 2, 2, 2, 2, 2, 2, 3, 3, 3, 4, 4, 5, 5, 6, 7, 8, 9, 10, 11, 12, 13, 14, 15, 16, 17, 18][lgk as usize]
}

/// the updatable exception table: open addressing, probe = slot & mask, stride = (slot >> lg) | 1
pub fn aux_table(lgk: u8, aux: &[(u32, u8)]) -> (u8, Vec<u32>) {
    let mut lg = lg_aux_arr_ints(lgk);
    while 4 * aux.len() > 3 * (1usize << lg) {
        lg += 1;
    }
    let size = 1u32 << lg;
    let mut tab = vec![0u32; size as usize];
    for &(slot, val) in aux {
        let mut p = slot & (size - 1);
        let stride = (slot >> lg) | 1;
        while tab[p as usize] != 0 {
            p = (p + stride) & (size - 1);
        }
        tab[p as usize] = pack(slot, val as u32);
    }
    (lg, tab)
}

pub struct Variant {
    pub compact: bool,
    pub lgarr: u8,
    pub lgaux: u8,
    pub auxtab: Vec<u32>,
    pub auxo: Vec<(u32, u8)>,
}

/// image of the abstract state `st` in the given variant
pub fn encode(st: &VerifHllState, compact: bool, lgarr_list: u8) -> (Vec<u8>, Variant) {
    let mut b = vec![];
    let mut v = Variant { compact, lgarr: lgarr_list, lgaux: 0, auxtab: vec![], auxo: vec![] };
    match st.mode {
        0 => {
            let coupons: Vec<u32> = st.coupons.iter().copied().filter(|&c| c != 0).collect();
            let flags = (if coupons.is_empty() { 4 } else { 0 }) | (if compact { 8 } else { 0 });
            b.extend_from_slice(&[2, 1, 7, st.lg_config_k, lgarr_list, flags, coupons.len() as u8, mode_byte(st)]);
            for &c in &coupons {
                coupon_bytes(c, &mut b);
            }
            if !compact && !coupons.is_empty() {
                for _ in coupons.len()..(1usize << lgarr_list) {
                    coupon_bytes(0, &mut b);
                }
            }
        }
        1 => {
            v.lgarr = st.lg_arr as u8;
            b.extend_from_slice(&[3, 1, 7, st.lg_config_k, st.lg_arr as u8, if compact { 8 } else { 0 }, 0, mode_byte(st)]);
            b.extend_from_slice(&(st.count as u32).to_le_bytes());
            if compact {
                let mut cs: Vec<u32> = st.coupons.iter().copied().filter(|&c| c != 0).collect();
                cs.sort();
                for c in cs {
                    coupon_bytes(c, &mut b);
                }
            } else {
                for &c in &st.coupons {
                    coupon_bytes(c, &mut b);
                }
            }
        }
        _ => {
            let mut aux = st.aux.clone();
            aux.sort();
            let (lgaux, tab) = aux_table(st.lg_config_k, &aux);
            let use_tab = st.hll_type == 4 && !compact && !aux.is_empty();
            let flags = (if st.ooo { 16 } else { 0 }) | (if compact { 8 } else { 0 });
            b.extend_from_slice(&[10, 1, 7, st.lg_config_k, if use_tab { lgaux } else { 0 }, flags, st.cur_min, mode_byte(st)]);
            b.extend_from_slice(&st.hip.to_le_bytes());
            b.extend_from_slice(&st.kxq0.to_le_bytes());
            b.extend_from_slice(&st.kxq1.to_le_bytes());
            b.extend_from_slice(&st.num_at_cur_min.to_le_bytes());
            b.extend_from_slice(&(aux.len() as u32).to_le_bytes());
            let k = 1usize << st.lg_config_k;
            match st.hll_type {
                8 => b.extend_from_slice(&st.regs),
                4 => {
                    for i in 0..k / 2 {
                        b.push(st.raw[2 * i] | (st.raw[2 * i + 1] << 4));
                    }
                }
                _ => {
                    let mut bytes = vec![0u8; 3 * k / 4 + 1];
                    for (s, &val) in st.regs.iter().enumerate() {
                        for bit in 0..6 {
                            if val >> bit & 1 == 1 {
                                let p = 6 * s + bit;
                                bytes[p / 8] |= 1 << (p % 8);
                            }
                        }
                    }
                    b.extend_from_slice(&bytes);
                }
            }
            if st.hll_type == 4 && !aux.is_empty() {
                if compact {
                    for &(s, val) in &aux {
                        coupon_bytes(pack(s, val as u32), &mut b);
                    }
                    v.auxo = aux.clone();
                } else {
                    for &c in &tab {
                        coupon_bytes(c, &mut b);
                    }
                    v.lgaux = lgaux;
                    v.auxtab = tab;
                }
            }
        }
    }
    (b, v)
}

fn pairs(cs: &[u32]) -> Vec<Value> {
    cs.iter().map(|&c| json!([c & 0x3ffffff, c >> 26])).collect()
}

/// fields (img, fb, auxo) that let the specification re-encode the state and compare bytes (C12)
pub fn own_image_fields(sk: &HllSketch) -> Value {
    let img = sk.serialize();
    let st = sk.verif_state();
    let mut fb: Vec<u8> = vec![];
    let mut auxo = vec![];
    if st.mode == 2 {
        fb = img[8..32].to_vec();
        let k = 1usize << st.lg_config_k;
        let regb = match st.hll_type {
            4 => k / 2,
            6 => 3 * k / 4 + 1,
            _ => k,
        };
        let mut p = 40 + regb;
        while p + 4 <= img.len() {
            let c = u32::from_le_bytes(img[p..p + 4].try_into().unwrap());
            auxo.push(json!([c & 0x3ffffff, c >> 26]));
            p += 4;
        }
    }
    json!({"img": img, "fb": fb, "auxo": auxo})
}

impl<'a> Sess<'a> {
    /// load the image of `src`'s state in a variant; the result becomes a new object
    pub fn load_variant(&mut self, src: usize, compact: bool, lgarr_list: u8) -> usize {
        let to = self.sk.len();
        self.sk.push(None);
        if self.dead {
            return to;
        }
        let st = self.sk[src].as_ref().unwrap().verif_state();
        let (img, v) = encode(&st, compact, lgarr_list);
        let fb: Vec<u8> = if st.mode == 2 { img[8..32].to_vec() } else { vec![] };
        let r = catch(std::panic::AssertUnwindSafe(|| HllSketch::deserialize(&img)));
        let var = json!({"compact": v.compact, "lgarr": v.lgarr, "lgaux": v.lgaux});
        let base = json!({"op":"Load","id":to,"variant":var,"abs":full(&st),"img":img,"fb":fb,
            "auxo": v.auxo.iter().map(|(s, x)| json!([s, x])).collect::<Vec<_>>(), "auxtab": pairs(&v.auxtab)});
        match r {
            Ok(Ok(sk)) => {
                let mut e = base;
                e["ok"] = json!(true);
                e["st"] = full(&sk.verif_state());
                e["o"] = obs(&sk);
                self.out.ev(e);
                self.sk[to] = Some(sk);
            }
            Ok(Err(err)) => {
                let mut e = base;
                e["ok"] = json!(false);
                e["st"] = json!({});
                e["o"] = json!({});
                e["err"] = json!(format!("{err:?}"));
                self.out.ev(e);
                self.dead = true;
            }
            Err(p) => {
                self.out.ev(json!({"op":"Panic","in":"deserialize-variant","key":p.split(": ").next().unwrap_or(""),"msg":p}));
                self.dead = true;
            }
        }
        to
    }
}

/// C13 scenarios: sources in every mode / type (with exceptions, out of order), every variant
pub fn record(args: &Args) {
    let seed = args.u64("seed", 1);
    let mut rng = Rng::new(seed ^ 0xF0F0);
    let thorough = args.thorough();
    let mut out = Shards::create(&args.str("out", "hllv"), args.u64("shards", 8) as usize);
    let reps = if thorough { 6 } else { 2 };
    for _ in 0..reps {
        for &lgk in &[4u8, 5, 7, 8, 10] {
            for &t in &[4u8, 6, 8] {
                let mut s = Sess::new(&mut out, "hll-image-variants");
                // sources: list, set (when lgk >= 8), array, array with exceptions, out-of-order array
                let mut srcs = vec![];
                let l = s.new_sketch(lgk, t);
                for _ in 0..rng.range(0, 6) {
                    let x = rng.next();
                    let (sl, v) = crate::refhash::hll_coupon(&x);
                    s.upd(l, pack(sl, v as u32));
                }
                srcs.push(l);
                if lgk >= 8 {
                    let st = s.new_sketch(lgk, t);
                    let n = rng.range(8, 3 * (1u64 << (lgk - 3)) / 4);
                    for _ in 0..n {
                        let x = rng.next();
                        let (sl, v) = crate::refhash::hll_coupon(&x);
                        s.upd(st, pack(sl, v as u32));
                    }
                    srcs.push(st);
                }
                let a = s.new_sketch(lgk, t);
                let k = 1u64 << lgk;
                for _ in 0..(k + rng.below(2 * k)) {
                    let x = rng.next();
                    let (sl, v) = crate::refhash::hll_coupon(&x);
                    let v = if rng.chance(1, 40) { 16 + rng.below(45) as u8 } else { v };
                    s.upd(a, pack(sl, v as u32));
                }
                srcs.push(a);
                // out-of-order array of this type through a union
                let u = s.new_union(lgk);
                s.uupd(u, a);
                s.uupd(u, a);
                let outs = s.utosk3(u);
                srcs.push(outs[[4u8, 6, 8].iter().position(|&x| x == t).unwrap()]);
                for &src in &srcs {
                    for compact in [true, false] {
                        let lg_list = 3; // Java/C++ coupon lists always have 8 slots
                        let j = s.load_variant(src, compact, lg_list);
                        if s.dead {
                            break;
                        }
                        s.chk(j);
                        // behaves as that state requires: more updates, union, re-serialization
                        let x = rng.next();
                        let (sl, v) = crate::refhash::hll_coupon(&x);
                        s.upd(j, pack(sl, v as u32));
                        s.upd(j, pack(sl, v as u32));
                        s.chk(j);
                        let u2 = s.new_union(lgk.max(8));
                        s.uupd(u2, j);
                        s.uchk(u2);
                        s.utosk3(u2);
                        let r = s.rt(j);
                        s.chk(r);
                    }
                    if s.dead {
                        break;
                    }
                }
            }
        }
    }
    let (runs, events) = out.finish();
    println!("{}", json!({"runs":runs,"events":events}));
}
