//! C16: drive the library's streaming hashers through the verif hook and record traces.
use serde_json::json;

use crate::refhash;
use crate::util::*;

fn one_run(out: &mut Shards, rng: &mut Rng, scn: &str, chunks: &[usize], seed: u64, murmur: bool) {
    let n: usize = chunks.iter().sum();
    let data: Vec<u8> = (0..n).map(|_| rng.next() as u8).collect();
    let mut parts: Vec<&[u8]> = vec![];
    let mut p = 0;
    for &c in chunks {
        parts.push(&data[p..p + c]);
        p += c;
    }
    out.next_run(scn);
    if murmur {
        out.ev(json!({"op":"New","h":"murmur","B":16,"seed":hex64(seed)}));
        let (dig, states) = datasketches::verif::murmur3_x64_128(seed, &parts);
        for (i, (b, t)) in states.iter().enumerate() {
            out.ev(json!({"op":"Write","len":chunks[i],"buf":b,"tot":t}));
        }
        let (one, _) = datasketches::verif::murmur3_x64_128(seed, &[&data]);
        let r = refhash::murmur3_x64_128(&data, seed);
        out.ev(json!({"op":"Finish","n":n,
            "dig":format!("{}{}",hex64(dig.0),hex64(dig.1)),
            "one":format!("{}{}",hex64(one.0),hex64(one.1)),
            "ref":format!("{}{}",hex64(r.0),hex64(r.1))}));
    } else {
        out.ev(json!({"op":"New","h":"xx","B":32,"seed":hex64(seed)}));
        let (dig, states) = datasketches::verif::xxhash64(seed, &parts);
        for (i, (b, t)) in states.iter().enumerate() {
            out.ev(json!({"op":"Write","len":chunks[i],"buf":b,"tot":t}));
        }
        let (one, _) = datasketches::verif::xxhash64(seed, &[&data]);
        let r = refhash::xxh64(&data, seed);
        out.ev(json!({"op":"Finish","n":n,"dig":hex64(dig),"one":hex64(one),"ref":hex64(r)}));
    }
}

fn pick_seed(rng: &mut Rng, i: usize) -> u64 {
    match i % 4 {
        0 => 0,
        1 => 9001,
        2 => u64::MAX,
        _ => rng.next(),
    }
}

/// `vh hash-record --in behaviours.json --out prefix --shards N --seed S [--tier thorough]`
pub fn record(args: &Args) {
    let mut rng = Rng::new(args.u64("seed", 1));
    let mut out = Shards::create(&args.str("out", "hash"), args.u64("shards", 4) as usize);
    // (a) every TLC-generated chunking
    let mut i = 0usize;
    if let Some(path) = args.get("in") {
        let text = std::fs::read_to_string(path).expect("behaviours file");
        for line in text.lines() {
            let chunks: Vec<usize> = serde_json::from_str(line).expect("chunking");
            let seed = pick_seed(&mut rng, i);
            one_run(&mut out, &mut rng, "hash-tlc-chunking", &chunks, seed, true);
            one_run(&mut out, &mut rng, "hash-tlc-chunking", &chunks, seed, false);
            i += 1;
        }
    }
    // (b) random chunkings of longer inputs: every length 0..=200, several times
    let reps = if args.thorough() { 40 } else { 3 };
    for len in 0..=200usize {
        for _ in 0..reps {
            let mut chunks = vec![];
            let mut left = len;
            let style = rng.below(3);
            while left > 0 {
                let max = match style {
                    0 => 5,
                    1 => 40,
                    _ => left as u64,
                };
                let c = (rng.range(0, max) as usize).min(left);
                chunks.push(c);
                left -= c;
            }
            if len == 0 {
                chunks = vec![0; rng.below(3) as usize];
            }
            let seed = pick_seed(&mut rng, i);
            one_run(&mut out, &mut rng, "hash-random-chunking", &chunks, seed, true);
            one_run(&mut out, &mut rng, "hash-random-chunking", &chunks, seed, false);
            i += 1;
        }
    }
    // (c) derived quantities observable through the public API
    derive(&mut out, &mut rng, if args.thorough() { 4000 } else { 400 });
    let (runs, events) = out.finish();
    println!("{}", json!({"runs":runs,"events":events}));
}

fn derive(out: &mut Shards, rng: &mut Rng, n: usize) {
    use datasketches::hll::{HllSketch, HllType};
    for i in 0..n {
        out.next_run("hash-derive");
        // HLL: the first coupon of a list-mode image is the coupon of the item
        let item_u = rng.next();
        let item_s = format!("item-{}-{}", i, rng.below(1000));
        for kind in 0..3 {
            let mut sk = HllSketch::new(10, HllType::Hll8);
            let (slot, val) = match kind {
                0 => {
                    sk.update(item_u);
                    refhash::hll_coupon(&item_u)
                }
                1 => {
                    sk.update(item_s.as_str());
                    refhash::hll_coupon(&item_s.as_str())
                }
                _ => {
                    let t = (item_u as i32, item_s.clone());
                    sk.update(&t);
                    refhash::hll_coupon(&&t)
                }
            };
            let bytes = sk.serialize();
            let c = u32::from_le_bytes([bytes[8], bytes[9], bytes[10], bytes[11]]);
            out.ev(json!({"op":"Derive","what":"hll_coupon",
                "lib":[c & ((1<<26)-1), c >> 26],"ref":[slot, val]}));
        }
        // seed hash
        let seed = if i == 0 { 9001 } else { rng.next() };
        let r = refhash::seed_hash(seed);
        if r != 0 {
            let lib = datasketches::verif::seed_hash(seed);
            out.ev(json!({"op":"Derive","what":"seed_hash","lib":lib,"ref":r}));
        }
    }
}
