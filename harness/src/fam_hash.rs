//! C16: drive the library's streaming hashers through the verif hook and record traces.
use serde_json::json;

use crate::refhash;
use crate::util::*;

fn one_run(out: &mut Shards, rng: &mut Rng, scn: &str, chunks: &[usize], seed: u64, murmur: bool) {
    let n: usize = chunks.iter().sum();
    let data: Vec<u8> = (0..n).map(|_| rng.next() as u8).collect();
    let mut parts: Vec<&[u8]> = vec![];
    let mut p = 0;
    for &c in chunks {
        parts.push(&data[p..p + c]);
        p += c;
    }
    out.next_run(scn);
    if murmur {
        out.ev(json!({"op":"New","h":"murmur","B":16,"seed":hex64(seed)}));
        let (dig, states) = datasketches::verif::murmur3_x64_128(seed, &parts);
        for (i, (b, t)) in states.iter().enumerate() {
            out.ev(json!({"op":"Write","len":chunks[i],"buf":b,"tot":t}));
        }
        let (one, _) = datasketches::verif::murmur3_x64_128(seed, &[&data]);
        let r = refhash::murmur3_x64_128(&data, seed);
        out.ev(json!({"op":"Finish","n":n,
            "dig":format!("{}{}",hex64(dig.0),hex64(dig.1)),
            "one":format!("{}{}",hex64(one.0),hex64(one.1)),
            "ref":format!("{}{}",hex64(r.0),hex64(r.1))}));
    } else {
        out.ev(json!({"op":"New","h":"xx","B":32,"seed":hex64(seed)}));
        let (dig, states) = datasketches::verif::xxhash64(seed, &parts);
        for (i, (b, t)) in states.iter().enumerate() {
            out.ev(json!({"op":"Write","len":chunks[i],"buf":b,"tot":t}));
        }
        let (one, _) = datasketches::verif::xxhash64(seed, &[&data]);
        let r = refhash::xxh64(&data, seed);
        out.ev(json!({"op":"Finish","n":n,"dig":hex64(dig),"one":hex64(one),"ref":hex64(r)}));
    }
}

fn pick_seed(rng: &mut Rng, i: usize) -> u64 {
    match i % 4 {
        0 => 0,
        1 => 9001,
        2 => u64::MAX,
        _ => rng.next(),
    }
}

/// `vh hash-record --in behaviours.json --out prefix --shards N --seed S [--tier thorough]`
pub fn record(args: &Args) {
    let mut rng = Rng::new(args.u64("seed", 1));
    let mut out = Shards::create(&args.str("out", "hash"), args.u64("shards", 4) as usize);
    // (a) every TLC-generated chunking
    let mut i = 0usize;
    if let Some(path) = args.get("in") {
        let text = std::fs::read_to_string(path).expect("behaviours file");
        for line in text.lines() {
            let chunks: Vec<usize> = serde_json::from_str(line).expect("chunking");
            let seed = pick_seed(&mut rng, i);
            one_run(&mut out, &mut rng, "hash-tlc-chunking", &chunks, seed, true);
            one_run(&mut out, &mut rng, "hash-tlc-chunking", &chunks, seed, false);
            i += 1;
        }
    }
    // (b) random chunkings of longer inputs: every length 0..=200, several times
    let reps = if args.thorough() { 40 } else { 3 };
    for len in 0..=200usize {
        for _ in 0..reps {
            let mut chunks = vec![];
            let mut left = len;
            let style = rng.below(3);
            while left > 0 {
                let max = match style {
                    0 => 5,
                    1 => 40,
                    _ => left as u64,
                };
                let c = (rng.range(0, max) as usize).min(left);
                chunks.push(c);
                left -= c;
            }
            if len == 0 {
                chunks = vec![0; rng.below(3) as usize];
            }
            let seed = pick_seed(&mut rng, i);
            one_run(&mut out, &mut rng, "hash-random-chunking", &chunks, seed, true);
            one_run(&mut out, &mut rng, "hash-random-chunking", &chunks, seed, false);
            i += 1;
        }
    }
    // (c) derived quantities observable through the public API
    derive(&mut out, &mut rng, if args.thorough() { 4000 } else { 400 });
    derive_seeded(&mut out, &mut rng, if args.thorough() { 60 } else { 12 });
    derive_floats(&mut out, &mut rng);
    let (runs, events) = out.finish();
    println!("{}", json!({"runs":runs,"events":events}));
}

/// Floating-point items (theta and CPC `update_f64` / `update_f32`): the hashed item is the canonical bit
/// pattern of the value as a double - one zero (-0.0 is +0.0), one NaN (0x7ff8000000000000), f32 widened -
/// as Java's Double.doubleToLongBits gives it.
fn derive_floats(out: &mut Shards, rng: &mut Rng) {
    use datasketches::cpc::CpcSketch;
    use datasketches::theta::ThetaSketch;
    out.next_run("hash-derive-floats");
    let canon = |v: f64| -> u64 { if v.is_nan() { 0x7ff8_0000_0000_0000 } else if v == 0.0 { 0 } else { v.to_bits() } };
    let mut vals: Vec<f64> = vec![0.0, -0.0, 1.0, -1.5, f64::INFINITY, f64::NEG_INFINITY, f64::MIN_POSITIVE, 5e-324, f64::MAX,
        f64::NAN, f64::from_bits(0x7ff0_0000_0000_0001), f64::from_bits(0xfff8_0000_0000_0000), f64::from_bits(0x7fff_ffff_ffff_ffff)];
    for _ in 0..20 {
        vals.push(f64::from_bits(rng.next()));
    }
    for &v in &vals {
        let bits = canon(v);
        let (h1, h2) = refhash::murmur3_x64_128(&bits.to_le_bytes(), 9001);
        let want_rc = [(h1 & 2047) as u32, h2.leading_zeros().min(63)];
        let mut sk = CpcSketch::new(11);
        sk.update_f64(v);
        let pair = sk.verif_state().table.first().copied().unwrap_or(u32::MAX);
        out.ev(json!({"op":"Derive","what":"cpc_rowcol_f64","kind":format!("{:016x}", v.to_bits()),"lib":[pair >> 6, pair & 63],"ref":want_rc}));
        let mut th = ThetaSketch::builder().build();
        th.update_f64(v);
        out.ev(json!({"op":"Derive","what":"theta_hash_f64","kind":format!("{:016x}", v.to_bits()),
            "lib":hex64(th.iter().next().unwrap_or(0)),"ref":hex64(h1 >> 1)}));
        // the f32 entry points widen first
        let f = v as f32;
        let bits32 = canon(f as f64);
        let (g1, g2) = refhash::murmur3_x64_128(&bits32.to_le_bytes(), 9001);
        let mut sk = CpcSketch::new(11);
        sk.update_f32(f);
        let pair = sk.verif_state().table.first().copied().unwrap_or(u32::MAX);
        out.ev(json!({"op":"Derive","what":"cpc_rowcol_f32","kind":format!("{:08x}", f.to_bits()),"lib":[pair >> 6, pair & 63],
            "ref":[(g1 & 2047) as u32, g2.leading_zeros().min(63)]}));
        let mut th = ThetaSketch::builder().build();
        th.update_f32(f);
        out.ev(json!({"op":"Derive","what":"theta_hash_f32","kind":format!("{:08x}", f.to_bits()),
            "lib":hex64(th.iter().next().unwrap_or(0)),"ref":hex64(g1 >> 1)}));
    }
}

/// Derivations under a configured seed: the row / column a CPC sketch and the hash a theta sketch derive for
/// an item, the seed hash their images carry, and the seed a CPC union hands on to its result whatever path
/// built that result (copy of the first input, accumulator rebuilt at a smaller lg_k, bit matrix).
fn derive_seeded(out: &mut Shards, rng: &mut Rng, n: usize) {
    use datasketches::cpc::{CpcSketch, CpcUnion};
    use datasketches::theta::ThetaSketch;
    let row_col = |item: u64, lgk: u8, seed: u64| -> (u32, u32) {
        let (h1, h2) = refhash::murmur3_x64_128(&refhash::hashed_bytes(&item), seed);
        ((h1 & ((1u64 << lgk) - 1)) as u32, h2.leading_zeros().min(63))
    };
    for i in 0..n {
        let seed = match i {
            0 => 17,
            1 => u64::MAX,
            2 => 0xDEAD_BEEF,
            _ => rng.next(),
        };
        let want_sh = refhash::seed_hash(seed);
        if want_sh == 0 {
            continue;
        }
        out.next_run("hash-derive-seeded");
        // CPC sketch
        let item = rng.next();
        let mut sk = CpcSketch::with_seed(11, seed);
        sk.update(item);
        let st = sk.verif_state();
        let pair = st.table.first().copied().unwrap_or(u32::MAX);
        let (r, c) = row_col(item, 11, seed);
        out.ev(json!({"op":"Derive","what":"cpc_rowcol","kind":"seeded","lib":[pair >> 6, pair & 63],"ref":[r, c]}));
        let img = sk.serialize();
        out.ev(json!({"op":"Derive","what":"cpc_seed_hash","kind":"seeded","lib":[img[6], img[7]],"ref":want_sh.to_le_bytes().to_vec()}));
        // theta
        let mut th = ThetaSketch::builder().seed(seed).build();
        th.update(item);
        let lib = th.iter().next().unwrap_or(0);
        let want = refhash::murmur3_x64_128(&refhash::hashed_bytes(&item), seed).0 >> 1;
        out.ev(json!({"op":"Derive","what":"theta_hash","kind":"seeded","lib":hex64(lib),"ref":hex64(want)}));
        th.update(rng.next());
        let timg = th.compact(true).serialize();
        out.ev(json!({"op":"Derive","what":"theta_seed_hash","kind":"seeded","lib":[timg[6], timg[7]],"ref":want_sh.to_le_bytes().to_vec()}));
        // CPC union results: (union lg_k, [(input lg_k, items)])
        let plans: Vec<(u8, Vec<(u8, usize)>)> = vec![
            (11, vec![(11, 30)]),                      // copy of the first sparse input
            (12, vec![(12, 30), (10, 20)]),            // accumulator rebuilt at a smaller lg_k, still sparse
            (12, vec![(12, 300), (10, 5)]),            // ... and dense enough to become a bit matrix
            (12, vec![(9, 12)]),                       // empty accumulator, smaller first input
            (10, vec![(12, 40), (12, 10)]),            // larger inputs walked into the accumulator
            (10, vec![(10, 3000)]),                    // dense input: bit matrix
            (11, vec![(11, 25), (8, 10), (11, 40)]),
        ];
        for (ulgk, inputs) in plans {
            let mut u = CpcUnion::with_seed(ulgk, seed);
            let mut items: Vec<u64> = vec![];
            for (lgk, cnt) in inputs {
                let mut s = CpcSketch::with_seed(lgk, seed);
                for _ in 0..cnt {
                    let x = rng.next();
                    items.push(x);
                    s.update(x);
                }
                u.update(&s);
                let res = u.to_sketch();
                let rimg = res.serialize();
                let dec = CpcSketch::deserialize_with_seed(&rimg, seed).is_ok();
                // items already in the result fall on bits already set, under the union's seed
                let mut again = res.clone();
                for &x in &items {
                    again.update(x);
                }
                let stable = again.num_coupons() == res.num_coupons();
                out.ev(json!({"op":"Derive","what":"cpc_union_seed","kind":format!("union {ulgk} <- {lgk}x{cnt}"),
                    "lib":[rimg[6], rimg[7], dec as u8, stable as u8],"ref":[want_sh.to_le_bytes()[0], want_sh.to_le_bytes()[1], 1, 1]}));
            }
        }
    }
}

/// what an item becomes in two sketches, read back through the public API, against the reference
/// derivation from the item's hashed byte sequence (std's default integer writes: little-endian bytes)
fn derive_item<T: std::hash::Hash + Clone>(out: &mut Shards, kind: &str, item: T) {
    use datasketches::hll::{HllSketch, HllType};
    use datasketches::theta::ThetaSketch;
    let mut sk = HllSketch::new(10, HllType::Hll8);
    sk.update(item.clone());
    let (slot, val) = refhash::hll_coupon(&item);
    let bytes = sk.serialize();
    let c = u32::from_le_bytes([bytes[8], bytes[9], bytes[10], bytes[11]]);
    out.ev(json!({"op":"Derive","what":"hll_coupon","kind":kind,"lib":[c & ((1<<26)-1), c >> 26],"ref":[slot, val]}));
    // XXH64 side: the bits a Bloom filter sets for the item against the reference double hashing
    let mut bf = datasketches::bloom::BloomFilterBuilder::with_size(1000, 5).seed(4242).build();
    bf.insert(item.clone());
    let mut want = crate::fam_bloom::positions(&item, 4242, 5, bf.capacity() as u64);
    want.sort();
    want.dedup();
    out.ev(json!({"op":"Derive","what":"bloom_bits","kind":kind,"lib":crate::fam_bloom::image_bits(&bf.serialize()),"ref":want}));
    // Count-Min: the cell each row counts the item in (7 buckets: not a power of two), read from the image
    let mut cm = datasketches::countmin::CountMinSketch::<u64>::with_seed(3, 7, 4242);
    cm.update_with_weight(item.clone(), 1);
    let img = cm.serialize();
    let cells: Vec<u64> = (0..21).filter(|i| img[24 + 8 * i] == 1).map(|i| i as u64).collect();
    let want: Vec<u64> = crate::fam_cm::row_seeds(4242, 3).iter().enumerate()
        .map(|(r, s)| r as u64 * 7 + refhash::murmur3_x64_128(&refhash::hashed_bytes(&item), *s).0 % 7).collect();
    out.ev(json!({"op":"Derive","what":"countmin_cells","kind":kind,"lib":cells,"ref":want}));
    let mut th = ThetaSketch::builder().build();
    th.update(item.clone());
    let lib = th.iter().next().unwrap_or(0);
    let r = refhash::murmur3_x64_128(&refhash::hashed_bytes(&item), 9001).0 >> 1;
    out.ev(json!({"op":"Derive","what":"theta_hash","kind":kind,"lib":hex64(lib),"ref":hex64(r)}));
}

#[derive(Hash, Clone)]
struct Rec3 {
    a: u32,
    b: u32,
    c: u64,
}

#[derive(Hash, Clone)]
struct Mixed {
    a: u8,
    b: u16,
    c: u32,
    d: u64,
    e: i8,
    f: i16,
    g: i32,
    h: i64,
    i: usize,
    j: isize,
    k: u128,
    l: i128,
    m: bool,
    n: char,
}

/// composite items: every integer write method of the Hasher, at every offset within a 16-byte block
fn derive_typed(out: &mut Shards, rng: &mut Rng) {
    out.next_run("hash-derive");
    let (a, b, c) = (rng.next(), rng.next(), rng.next());
    derive_item(out, "(u64,u64)", (a, b));
    derive_item(out, "(i64,i64)", (a as i64, b as i64));
    derive_item(out, "(u64,u64,u64)", (a, b, c));
    derive_item(out, "Rec3{u32,u32,u64}", Rec3 { a: a as u32, b: b as u32, c });
    derive_item(out, "(u64,u64,u64,&str)", (a, b, c, "tail"));
    derive_item(out, "u128", ((a as u128) << 64) | b as u128);
    derive_item(out, "i128", (((a as u128) << 64) | b as u128) as i128);
    derive_item(out, "[u8;16]", ((a as u128) << 64 | b as u128).to_le_bytes());
    derive_item(out, "[u64;3]", [a, b, c]);
    derive_item(out, "(u8,u64)", (a as u8, b));
    derive_item(out, "(u32,u64)", (a as u32, b));
    derive_item(out, "(u16,u16,u32,u64)", (a as u16, b as u16, c as u32, a));
    derive_item(out, "(u64,u32)", (a, b as u32));
    derive_item(out, "(&str,u64)", ("0123456", b));          // 7 bytes + 0xff terminator, then a u64 at offset 8
    derive_item(out, "(&str,u64)15", ("0123456789abcde", b)); // 15 bytes + terminator = one full block
    derive_item(out, "Vec<u64>", vec![a, b, c]);             // length prefix (usize) then the elements
    derive_item(out, "Vec<u8>", vec![a as u8; (b % 40) as usize]);
    derive_item(out, "(usize,isize)", (a as usize, b as isize));
    derive_item(out, "Option<u64>", Some(a));
    derive_item(out, "Mixed", Mixed { a: a as u8, b: a as u16, c: a as u32, d: b, e: b as i8, f: b as i16, g: b as i32, h: c as i64,
        i: c as usize, j: c as isize, k: (a as u128) << 64 | c as u128, l: -((b as i128) << 30), m: a & 1 == 1, n: 'x' });
    derive_item(out, "String15", "x".repeat(15));
    derive_item(out, "String31", "y".repeat(31));
    derive_item(out, "f64-bits", (a as f64).to_bits());
    derive_item(out, "(u64,u64,u64,u64)", (a, b, c, a ^ b));
    derive_item(out, "String31", "z".repeat(31));
    derive_item(out, "String63", "w".repeat(63));
    derive_item(out, "(u64,u64,u64,u32,u32)", (a, b, c, a as u32, b as u32));
    derive_item(out, "[u64;8]", [a, b, c, a, b, c, a, b]);
}

fn derive(out: &mut Shards, rng: &mut Rng, n: usize) {
    use datasketches::hll::{HllSketch, HllType};
    for _ in 0..(n / 20).max(4) {
        derive_typed(out, rng);
    }
    for i in 0..n {
        out.next_run("hash-derive");
        // HLL: the first coupon of a list-mode image is the coupon of the item
        let item_u = rng.next();
        let item_s = format!("item-{}-{}", i, rng.below(1000));
        for kind in 0..3 {
            let mut sk = HllSketch::new(10, HllType::Hll8);
            let (slot, val) = match kind {
                0 => {
                    sk.update(item_u);
                    refhash::hll_coupon(&item_u)
                }
                1 => {
                    sk.update(item_s.as_str());
                    refhash::hll_coupon(&item_s.as_str())
                }
                _ => {
                    let t = (item_u as i32, item_s.clone());
                    sk.update(&t);
                    refhash::hll_coupon(&&t)
                }
            };
            let bytes = sk.serialize();
            let c = u32::from_le_bytes([bytes[8], bytes[9], bytes[10], bytes[11]]);
            out.ev(json!({"op":"Derive","what":"hll_coupon",
                "lib":[c & ((1<<26)-1), c >> 26],"ref":[slot, val]}));
        }
        // seed hash
        let seed = if i == 0 { 9001 } else { rng.next() };
        let r = refhash::seed_hash(seed);
        if r != 0 {
            let lib = datasketches::verif::seed_hash(seed);
            out.ev(json!({"op":"Derive","what":"seed_hash","lib":lib,"ref":r}));
        }
    }
}
