//! Small shared helpers: deterministic PRNG, CLI parsing, ndjson output, bit-pattern tokens.
use std::collections::HashMap;
use std::io::Write;

/// SplitMix64: deterministic, seedable, no dependency.
#[derive(Clone)]
pub struct Rng(pub u64);

impl Rng {
    pub fn new(seed: u64) -> Self {
        Rng(seed ^ 0x9E37_79B9_7F4A_7C15)
    }
    pub fn next(&mut self) -> u64 {
        self.0 = self.0.wrapping_add(0x9E37_79B9_7F4A_7C15);
        let mut z = self.0;
        z = (z ^ (z >> 30)).wrapping_mul(0xBF58_476D_1CE4_E5B9);
        z = (z ^ (z >> 27)).wrapping_mul(0x94D0_49BB_1331_11EB);
        z ^ (z >> 31)
    }
    /// uniform in 0..n (n > 0)
    pub fn below(&mut self, n: u64) -> u64 {
        self.next() % n
    }
    pub fn range(&mut self, lo: u64, hi_incl: u64) -> u64 {
        lo + self.below(hi_incl - lo + 1)
    }
    pub fn chance(&mut self, num: u64, den: u64) -> bool {
        self.below(den) < num
    }
    pub fn f64(&mut self) -> f64 {
        (self.next() >> 11) as f64 / (1u64 << 53) as f64
    }
    pub fn pick<'a, T>(&mut self, xs: &'a [T]) -> &'a T {
        &xs[self.below(xs.len() as u64) as usize]
    }
    pub fn shuffle<T>(&mut self, xs: &mut [T]) {
        for i in (1..xs.len()).rev() {
            let j = self.below(i as u64 + 1) as usize;
            xs.swap(i, j);
        }
    }
}

/// `--key value` arguments after the sub-command.
pub struct Args {
    pub map: HashMap<String, String>,
}

impl Args {
    pub fn parse(args: &[String]) -> Self {
        let mut map = HashMap::new();
        let mut i = 0;
        while i < args.len() {
            if let Some(k) = args[i].strip_prefix("--") {
                let v = if i + 1 < args.len() && !args[i + 1].starts_with("--") {
                    i += 1;
                    args[i].clone()
                } else {
                    "true".to_string()
                };
                map.insert(k.to_string(), v);
            }
            i += 1;
        }
        Args { map }
    }
    pub fn get(&self, k: &str) -> Option<&str> {
        self.map.get(k).map(|s| s.as_str())
    }
    pub fn str(&self, k: &str, d: &str) -> String {
        self.get(k).unwrap_or(d).to_string()
    }
    pub fn u64(&self, k: &str, d: u64) -> u64 {
        self.get(k).map(|s| s.parse().expect("integer argument")).unwrap_or(d)
    }
    pub fn thorough(&self) -> bool {
        self.get("tier") == Some("thorough")
    }
}

/// Round-robin sharded ndjson writer: each *run* (a self-contained block of events that
/// starts with a New/Reset event) goes to one shard, so the shards can be validated by
/// independent TLC processes.
/// bumped by every event (and by `tick()` in long event-less loops): the watchdog of bin/vh.rs reports
/// a recorder that makes no progress for a long time as a hang of the library call in flight
pub static PROGRESS: std::sync::atomic::AtomicU64 = std::sync::atomic::AtomicU64::new(0);
pub fn tick() {
    PROGRESS.fetch_add(1, std::sync::atomic::Ordering::Relaxed);
}

pub struct Shards {
    // one write per event, so that the files hold whole lines at every moment
    files: Vec<std::fs::File>,
    pub paths: Vec<String>,
    cur: usize,
    pub events: u64,
    pub runs: u64,
}

impl Shards {
    pub fn create(prefix: &str, n: usize) -> Self {
        let mut files = vec![];
        let mut paths = vec![];
        for i in 0..n {
            let p = format!("{prefix}.{i}.ndjson");
            files.push(std::fs::File::create(&p).unwrap_or_else(|e| panic!("create {p}: {e}")));
            paths.push(p);
        }
        Shards { files, paths, cur: 0, events: 0, runs: 0 }
    }
    /// start a new run (scenario class `scn`) on the next shard
    pub fn next_run(&mut self, scn: &str) {
        self.cur = (self.cur + 1) % self.files.len();
        self.runs += 1;
        self.ev(serde_json::json!({"op":"Run","scn":scn}));
    }
    pub fn ev(&mut self, mut v: serde_json::Value) {
        // the Json module of TLC has no null: a NaN that slipped into a numeric field (serde writes
        // it as null) becomes the string "NaN", which no numeric conjunct of a specification accepts
        fn denull(v: &mut serde_json::Value) {
            match v {
                serde_json::Value::Null => *v = serde_json::Value::String("NaN".into()),
                serde_json::Value::Array(a) => a.iter_mut().for_each(denull),
                serde_json::Value::Object(o) => o.values_mut().for_each(denull),
                _ => {}
            }
        }
        denull(&mut v);
        let mut line = serde_json::to_vec(&v).unwrap();
        line.push(b'\n');
        self.files[self.cur].write_all(&line).unwrap();
        self.events += 1;
        tick();
    }
    /// like finish, but every shard ends with an End event (per-file totals are judged there)
    pub fn finish_with_end(mut self) -> (u64, u64) {
        for i in 0..self.files.len() {
            self.cur = i;
            self.ev(serde_json::json!({"op":"Run","scn":"end"}));
            self.ev(serde_json::json!({"op":"End"}));
        }
        self.finish()
    }

    pub fn finish(mut self) -> (u64, u64) {
        for f in self.files.iter_mut() {
            f.flush().unwrap();
        }
        (self.runs, self.events)
    }
}

pub fn hex64(x: u64) -> String {
    format!("{x:016x}")
}

pub fn fhex(x: f64) -> String {
    format!("{:016x}", x.to_bits())
}

/// Dense ranks of a list of f64 (equal values get equal ranks; NaN gets -1).
/// Any formula over <, <=, = has the same truth value on the ranks.
pub fn ranks(xs: &[f64]) -> Vec<i64> {
    let mut s: Vec<f64> = xs.iter().copied().filter(|x| !x.is_nan()).collect();
    s.sort_by(|a, b| a.partial_cmp(b).unwrap());
    s.dedup();
    xs.iter()
        .map(|x| {
            if x.is_nan() {
                -1
            } else {
                s.iter().position(|y| y == x).unwrap() as i64
            }
        })
        .collect()
}

/// Run a closure, turning a panic into Err(message with location).
pub fn catch<T>(f: impl FnOnce() -> T + std::panic::UnwindSafe) -> Result<T, String> {
    match std::panic::catch_unwind(f) {
        Ok(v) => Ok(v),
        Err(p) => {
            let msg = if let Some(s) = p.downcast_ref::<String>() {
                s.clone()
            } else if let Some(s) = p.downcast_ref::<&str>() {
                s.to_string()
            } else {
                "panic".to_string()
            };
            let loc = LAST_PANIC_LOC.with(|l| l.borrow().clone());
            Err(format!("{loc}: {msg}"))
        }
    }
}

thread_local! {
    pub static LAST_PANIC_LOC: std::cell::RefCell<String> = const { std::cell::RefCell::new(String::new()) };
}

/// Install a quiet panic hook that remembers the location of the last panic.
pub fn install_panic_hook() {
    std::panic::set_hook(Box::new(|info| {
        let loc = info
            .location()
            .map(|l| format!("{}:{}", l.file(), l.line()))
            .unwrap_or_default();
        LAST_PANIC_LOC.with(|l| *l.borrow_mut() = loc);
    }));
}
