use vh::util::Args;

#[global_allocator]
static GLOBAL: vh::alloc::Counting = vh::alloc::Counting;

fn main() {
    let argv: Vec<String> = std::env::args().collect();
    if argv.len() < 2 {
        eprintln!("usage: vh <command> [--key value]...");
        std::process::exit(2);
    }
    let args = Args::parse(&argv[2..]);
    vh::util::install_panic_hook();
    if argv[1] == "c14-worker" {
        return vh::fam_c14::worker(&args);
    }
    // A panic that escapes every guarded call of a recorder: when it was raised inside the library
    // under test it is data (a Panic event closes shard 0, which no specification accepts); a panic of
    // the harness itself stays a tool error.
    let cmd = argv[1].clone();
    // watchdog: a recorder that logs nothing for VH_STALL seconds (default 900) is stuck inside a call
    // of the library; that is reported like a panic (shard 0 is closed with a Panic event, key "hang")
    if cmd != "c14-record" {
        let prefix = args.get("out").map(|s| s.to_string());
        let cmd2 = cmd.clone();
        std::thread::spawn(move || {
            let stall: u64 = std::env::var("VH_STALL").ok().and_then(|s| s.parse().ok()).unwrap_or(900);
            let mut last = vh::util::PROGRESS.load(std::sync::atomic::Ordering::Relaxed);
            let mut since = std::time::Instant::now();
            loop {
                std::thread::sleep(std::time::Duration::from_secs(2));
                let now = vh::util::PROGRESS.load(std::sync::atomic::Ordering::Relaxed);
                if now != last {
                    last = now;
                    since = std::time::Instant::now();
                } else if since.elapsed().as_secs() >= stall {
                    if let Some(prefix) = &prefix {
                        use std::io::Write;
                        let mut f = std::fs::OpenOptions::new().create(true).append(true).open(format!("{prefix}.0.ndjson")).expect("shard 0");
                        writeln!(f, "{}", serde_json::json!({"op":"Run","scn":format!("{cmd2}-hang")})).unwrap();
                        writeln!(f, "{}", serde_json::json!({"op":"Panic","in":"recorder","key":"hang","msg":format!("no progress for {stall} s: a library call does not return")})).unwrap();
                        println!("{}", serde_json::json!({"runs":1,"events":2,"hang":true}));
                        std::process::exit(0);
                    }
                    eprintln!("recorder made no progress for {stall} s");
                    std::process::exit(101);
                }
            }
        });
    }
    let r = vh::util::catch(std::panic::AssertUnwindSafe(|| dispatch(&cmd, &args)));
    if let Err(e) = r {
        let loc = e.split(": ").next().unwrap_or("").to_string();
        let in_library = loc.contains("/datasketches/src/") || loc.starts_with("/rustc/") || loc.starts_with("library/");
        match (in_library, args.get("out")) {
            (true, Some(prefix)) => {
                use std::io::Write;
                let mut f = std::fs::OpenOptions::new().create(true).append(true).open(format!("{prefix}.0.ndjson")).expect("shard 0");
                writeln!(f, "{}", serde_json::json!({"op":"Run","scn":format!("{cmd}-unguarded")})).unwrap();
                writeln!(f, "{}", serde_json::json!({"op":"Panic","in":"recorder","key":loc,"msg":e})).unwrap();
                println!("{}", serde_json::json!({"runs":1,"events":2,"unguarded_panic":e}));
            }
            _ => {
                eprintln!("recorder panicked: {e}");
                std::process::exit(101);
            }
        }
    }
}

fn dispatch(cmd: &str, args: &Args) {
    match cmd {
        "hash-record" => vh::fam_hash::record(args),
        "hll-record" => vh::fam_hll::record(args),
        "theta-record" => vh::fam_theta::record(args),
        "fi-record" => vh::fam_fi::record(args),
        "cm-record" => vh::fam_cm::record(args),
        "bloom-record" => vh::fam_bloom::record(args),
        "cpc-record" => vh::fam_cpc::record(args),
        "td-record" => vh::fam_td::record(args),
        "td-replay" => vh::fam_td::replay(args),
        "hllv-record" => vh::fam_hllfmt::record(args),
        "ext-record" => vh::fam_ext::record(args),
        "size-record" => vh::fam_ext::record_sizes(args),
        "c14-record" => vh::fam_c14::record(args),
        "hllu-record" => vh::fam_hll::record_union(args),
        c => {
            eprintln!("unknown command {c}");
            std::process::exit(2);
        }
    }
}
