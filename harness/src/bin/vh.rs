use vh::util::Args;

#[global_allocator]
static GLOBAL: vh::alloc::Counting = vh::alloc::Counting;

fn main() {
    let argv: Vec<String> = std::env::args().collect();
    if argv.len() < 2 {
        eprintln!("usage: vh <command> [--key value]...");
        std::process::exit(2);
    }
    let args = Args::parse(&argv[2..]);
    vh::util::install_panic_hook();
    match argv[1].as_str() {
        "hash-record" => vh::fam_hash::record(&args),
        "hll-record" => vh::fam_hll::record(&args),
        "theta-record" => vh::fam_theta::record(&args),
        "fi-record" => vh::fam_fi::record(&args),
        "cm-record" => vh::fam_cm::record(&args),
        "bloom-record" => vh::fam_bloom::record(&args),
        "cpc-record" => vh::fam_cpc::record(&args),
        "td-record" => vh::fam_td::record(&args),
        "td-replay" => vh::fam_td::replay(&args),
        "hllv-record" => vh::fam_hllfmt::record(&args),
        "ext-record" => vh::fam_ext::record(&args),
        "size-record" => vh::fam_ext::record_sizes(&args),
        "c14-worker" => vh::fam_c14::worker(&args),
        "c14-record" => vh::fam_c14::record(&args),
        "hllu-record" => vh::fam_hll::record_union(&args),
        c => {
            eprintln!("unknown command {c}");
            std::process::exit(2);
        }
    }
}
