//! Independent one-shot transcriptions of MurmurHash3_x64_128 (Appleby, public domain) and
//! XXH64 (Collet, BSD) from the published reference algorithms. These are deliberately
//! *not* streaming: they take the complete byte string, so that any defect in the library's
//! block buffering shows up as a disagreement.

fn rd64(b: &[u8], i: usize) -> u64 {
    let mut v = 0u64;
    for j in 0..8 {
        v |= (b[i + j] as u64) << (8 * j);
    }
    v
}

fn rd32(b: &[u8], i: usize) -> u64 {
    let mut v = 0u64;
    for j in 0..4 {
        v |= (b[i + j] as u64) << (8 * j);
    }
    v
}

fn rotl(x: u64, r: u32) -> u64 {
    (x << r) | (x >> (64 - r))
}

fn fmix(mut k: u64) -> u64 {
    k ^= k >> 33;
    k = k.wrapping_mul(0xff51afd7ed558ccd);
    k ^= k >> 33;
    k = k.wrapping_mul(0xc4ceb9fe1a85ec53);
    k ^= k >> 33;
    k
}

/// MurmurHash3_x64_128 with a 64-bit seed used for both lanes (the DataSketches convention).
pub fn murmur3_x64_128(data: &[u8], seed: u64) -> (u64, u64) {
    const C1: u64 = 0x87c37b91114253d5;
    const C2: u64 = 0x4cf5ad432745937f;
    let len = data.len();
    let nblocks = len / 16;
    let mut h1 = seed;
    let mut h2 = seed;
    for i in 0..nblocks {
        let mut k1 = rd64(data, 16 * i);
        let mut k2 = rd64(data, 16 * i + 8);
        k1 = k1.wrapping_mul(C1);
        k1 = rotl(k1, 31);
        k1 = k1.wrapping_mul(C2);
        h1 ^= k1;
        h1 = rotl(h1, 27);
        h1 = h1.wrapping_add(h2);
        h1 = h1.wrapping_mul(5).wrapping_add(0x52dce729);
        k2 = k2.wrapping_mul(C2);
        k2 = rotl(k2, 33);
        k2 = k2.wrapping_mul(C1);
        h2 ^= k2;
        h2 = rotl(h2, 31);
        h2 = h2.wrapping_add(h1);
        h2 = h2.wrapping_mul(5).wrapping_add(0x38495ab5);
    }
    let tail = &data[16 * nblocks..];
    let mut k1 = 0u64;
    let mut k2 = 0u64;
    let t = tail.len();
    // the reference switch statement, falling through from the highest byte
    for i in (8..t).rev() {
        k2 ^= (tail[i] as u64) << (8 * (i - 8));
    }
    if t > 8 {
        k2 = k2.wrapping_mul(C2);
        k2 = rotl(k2, 33);
        k2 = k2.wrapping_mul(C1);
        h2 ^= k2;
    }
    for i in (0..t.min(8)).rev() {
        k1 ^= (tail[i] as u64) << (8 * i);
    }
    if t > 0 {
        k1 = k1.wrapping_mul(C1);
        k1 = rotl(k1, 31);
        k1 = k1.wrapping_mul(C2);
        h1 ^= k1;
    }
    h1 ^= len as u64;
    h2 ^= len as u64;
    h1 = h1.wrapping_add(h2);
    h2 = h2.wrapping_add(h1);
    h1 = fmix(h1);
    h2 = fmix(h2);
    h1 = h1.wrapping_add(h2);
    h2 = h2.wrapping_add(h1);
    (h1, h2)
}

const P1: u64 = 11400714785074694791;
const P2: u64 = 14029467366897019727;
const P3: u64 = 1609587929392839161;
const P4: u64 = 9650029242287828579;
const P5: u64 = 2870177450012600261;

fn xround(acc: u64, input: u64) -> u64 {
    rotl(acc.wrapping_add(input.wrapping_mul(P2)), 31).wrapping_mul(P1)
}

fn xmerge(acc: u64, val: u64) -> u64 {
    (acc ^ xround(0, val)).wrapping_mul(P1).wrapping_add(P4)
}

/// XXH64 one-shot.
pub fn xxh64(data: &[u8], seed: u64) -> u64 {
    let len = data.len();
    let mut p = 0usize;
    let mut h: u64;
    if len >= 32 {
        let mut v1 = seed.wrapping_add(P1).wrapping_add(P2);
        let mut v2 = seed.wrapping_add(P2);
        let mut v3 = seed;
        let mut v4 = seed.wrapping_sub(P1);
        while p + 32 <= len {
            v1 = xround(v1, rd64(data, p));
            v2 = xround(v2, rd64(data, p + 8));
            v3 = xround(v3, rd64(data, p + 16));
            v4 = xround(v4, rd64(data, p + 24));
            p += 32;
        }
        h = rotl(v1, 1)
            .wrapping_add(rotl(v2, 7))
            .wrapping_add(rotl(v3, 12))
            .wrapping_add(rotl(v4, 18));
        h = xmerge(h, v1);
        h = xmerge(h, v2);
        h = xmerge(h, v3);
        h = xmerge(h, v4);
    } else {
        h = seed.wrapping_add(P5);
    }
    h = h.wrapping_add(len as u64);
    while p + 8 <= len {
        h ^= xround(0, rd64(data, p));
        h = rotl(h, 27).wrapping_mul(P1).wrapping_add(P4);
        p += 8;
    }
    if p + 4 <= len {
        h ^= rd32(data, p).wrapping_mul(P1);
        h = rotl(h, 23).wrapping_mul(P2).wrapping_add(P3);
        p += 4;
    }
    while p < len {
        h ^= (data[p] as u64).wrapping_mul(P5);
        h = rotl(h, 11).wrapping_mul(P1);
        p += 1;
    }
    h ^= h >> 33;
    h = h.wrapping_mul(P2);
    h ^= h >> 29;
    h = h.wrapping_mul(P3);
    h ^= h >> 32;
    h
}

/// DataSketches seed hash: low 16 bits of murmur3(seed as 8 LE bytes, seed 0).h1.
pub fn seed_hash(seed: u64) -> u16 {
    (murmur3_x64_128(&seed.to_le_bytes(), 0).0 & 0xffff) as u16
}

/// A `Hasher` that only records the byte stream handed to it (what `Hash for T` writes),
/// so the harness can compute reference digests of the exact bytes the library hashed.
#[derive(Default)]
pub struct Recorder {
    pub bytes: Vec<u8>,
    pub chunks: Vec<usize>,
}

impl std::hash::Hasher for Recorder {
    fn finish(&self) -> u64 {
        0
    }
    fn write(&mut self, b: &[u8]) {
        self.bytes.extend_from_slice(b);
        self.chunks.push(b.len());
    }
}

pub fn hashed_bytes<T: std::hash::Hash>(v: &T) -> Vec<u8> {
    let mut r = Recorder::default();
    v.hash(&mut r);
    r.bytes
}

/// HLL coupon (26-bit slot, value = min(62, lz(h2)) + 1) from the reference digest.
pub fn hll_coupon<T: std::hash::Hash>(v: &T) -> (u32, u8) {
    let (h1, h2) = murmur3_x64_128(&hashed_bytes(v), 9001);
    let slot = (h1 & ((1 << 26) - 1)) as u32;
    let lz = h2.leading_zeros().min(62);
    (slot, (lz + 1) as u8)
}

#[cfg(test)]
mod tests {
    use super::*;
    #[test]
    fn vectors() {
        // published vectors (also used by the repository's unit tests)
        let (a, b) = murmur3_x64_128(b"The quick brown fox jumps over the lazy dog", 0);
        assert_eq!((a, b), (0xe34bbc7bbc071b6c, 0x7a433ca9c49a9347));
        let (a, b) = murmur3_x64_128(b"The quick brown fox jumps over t", 0);
        assert_eq!((a, b), (0xdf6af91bb29bdacf, 0x91a341c58df1f3a6));
        assert_eq!(xxh64(b"", 0), 0xEF46DB3751D8E999);
        assert_eq!(xxh64(b"a", 0), 0xD24EC4F1A98C6E5B);
        assert_eq!(xxh64(b"abc", 0), 0x44BC2CF5AD770999);
        assert_eq!(
            xxh64(b"Nobody inspects the spammish repetition", 0),
            0xFBCEA83C8A378BF1
        );
    }
}
