//! Theta sketch: drive the real objects and record traces for Trace_Theta.tla.
use std::collections::BTreeMap;

use datasketches::common::{NumStdDev, ResizeFactor};
use datasketches::theta::{CompactThetaSketch, ThetaSketch};
use serde_json::{Value, json};

use crate::refhash;
use crate::util::*;

pub const MAX_THETA: u64 = i64::MAX as u64;

#[derive(Clone, Debug)]
pub enum Op {
    Item(u64),     // public update(u64)
    Str(String),   // public update(&str)
    Hash(u64),     // hook: offer a chosen hash
    Trim,
    Reset,
    Compact(bool), // compact(ordered), then round trips of the result
}

pub fn rf_of(lg: u8) -> ResizeFactor {
    match lg {
        0 => ResizeFactor::X1,
        1 => ResizeFactor::X2,
        2 => ResizeFactor::X4,
        _ => ResizeFactor::X8,
    }
}

pub fn theta_hash_u64(item: u64, seed: u64) -> u64 {
    refhash::murmur3_x64_128(&refhash::hashed_bytes(&item), seed).0 >> 1
}

pub fn theta_hash_str(item: &str, seed: u64) -> u64 {
    refhash::murmur3_x64_128(&refhash::hashed_bytes(&item), seed).0 >> 1
}

fn th0_of(p: f32) -> u64 {
    // (a positive probability means a positive theta: the smallest one when p * 2^63 truncates to 0)
    if p < 1.0 { ((MAX_THETA as f64 * p as f64) as u64).max(1) } else { MAX_THETA }
}

struct Ranks(BTreeMap<u64, i64>);
impl Ranks {
    fn build(vals: impl Iterator<Item = u64>) -> Self {
        let mut m = BTreeMap::new();
        for v in vals {
            m.insert(v, 0);
        }
        for (i, (_, r)) in m.iter_mut().enumerate() {
            *r = i as i64 + 1;
        }
        Ranks(m)
    }
    fn h(&self, v: u64) -> Value {
        if v == 0 {
            return json!([0, 0]);
        }
        json!([self.r(v), v & ((1 << 30) - 1)])
    }
    fn r(&self, v: u64) -> i64 {
        *self.0.get(&v).unwrap_or(&-1)
    }
}

fn seven_u(sk: &ThetaSketch) -> [f64; 7] {
    [
        sk.lower_bound(NumStdDev::Three),
        sk.lower_bound(NumStdDev::Two),
        sk.lower_bound(NumStdDev::One),
        sk.estimate(),
        sk.upper_bound(NumStdDev::One),
        sk.upper_bound(NumStdDev::Two),
        sk.upper_bound(NumStdDev::Three),
    ]
}

fn seven_c(sk: &CompactThetaSketch) -> [f64; 7] {
    [
        sk.lower_bound(NumStdDev::Three),
        sk.lower_bound(NumStdDev::Two),
        sk.lower_bound(NumStdDev::One),
        sk.estimate(),
        sk.upper_bound(NumStdDev::One),
        sk.upper_bound(NumStdDev::Two),
        sk.upper_bound(NumStdDev::Three),
    ]
}

fn obs_of(s: &[f64; 7], emp: bool, n: usize, estm: bool, theta: u64) -> Value {
    let est = s[3];
    let estn: i64 = if est.fract() == 0.0 && est >= 0.0 && est < 2e9 { est as i64 } else { -1 };
    json!({"b": ranks(s), "estn": estn, "ubpos": s[5] > 0.0, "emp": emp, "n": n, "est0": est == 0.0, "estm": estm,
        // advertised one-sigma relative error (10^-5 units) and theta as a fraction (10^-5 units)
        "rel5": rel5(s), "th5": ((theta as f64 / MAX_THETA as f64) * 1e5).round() as i64})
}

fn rel5(s: &[f64; 7]) -> Value {
    let q = |x: f64| if x.is_finite() && x >= 0.0 { (x.min(0.3) * 1e5).round() as i64 } else { 30000 };
    if s[3] > 0.0 && s[2] > 0.0 && s[4] > 0.0 { json!([q(s[3] / s[2] - 1.0), q(s[4] / s[3] - 1.0)]) } else { json!([-1, -1]) }
}

fn toks(s: &[f64; 7]) -> Value {
    json!(s.iter().map(|x| fhex(*x)).collect::<Vec<_>>())
}

fn le8(x: u64) -> Vec<u8> {
    x.to_le_bytes().to_vec()
}

/// independent v4 encoder: deltas of the sorted entries, each in `w` bits, most significant bit first
pub fn ref_v4(entries: &[u64], theta: u64, sh: u16) -> Vec<u8> {
    ref_v4_width(entries, theta, sh, None)
}

/// `force_w`: pack with this width instead of the minimal one (for near-valid corpus images, C14)
pub fn ref_v4_width(entries: &[u64], theta: u64, sh: u16, force_w: Option<usize>) -> Vec<u8> {
    let est = theta < MAX_THETA;
    let mut deltas = vec![];
    let mut prev = 0u64;
    let mut ored = 0u64;
    for &e in entries {
        deltas.push(e - prev);
        ored |= e - prev;
        prev = e;
    }
    let w = force_w.unwrap_or(64 - ored.leading_zeros() as usize);
    let n = entries.len();
    let nb = if n == 0 { 0 } else if n < 256 { 1 } else if n < 65536 { 2 } else if n < (1 << 24) { 3 } else { 4 };
    let mut b = vec![if est { 2 } else { 1 }, 4, 3, w as u8, nb as u8, 2 | 8 | 16];
    b.extend_from_slice(&sh.to_le_bytes());
    if est {
        b.extend_from_slice(&theta.to_le_bytes());
    }
    for i in 0..nb {
        b.push((n >> (8 * i)) as u8);
    }
    let mut bits: Vec<u8> = vec![];
    for d in deltas {
        for i in (0..w).rev() {
            bits.push((d >> i & 1) as u8);
        }
    }
    while bits.len() % 8 != 0 {
        bits.push(0);
    }
    for ch in bits.chunks(8) {
        b.push(ch.iter().fold(0u8, |a, &x| (a << 1) | x));
    }
    b
}

/// images of serial versions 1, 2, 3 built from the abstract compact state
pub fn enc_v123(ver: u8, entries: &[u64], theta: u64, empty: bool, ordered: bool, sh: u16) -> Vec<u8> {
    let est = theta < MAX_THETA;
    let n = entries.len();
    let mut b = vec![];
    match ver {
        1 => {
            b.extend_from_slice(&[3, 1, 3, 0, 0, 0, 0, 0]);
            b.extend_from_slice(&(n as u32).to_le_bytes());
            b.extend_from_slice(&[0, 0, 0, 0]);
            b.extend_from_slice(&theta.to_le_bytes());
        }
        2 => {
            let pre = if empty { 1 } else if est { 3 } else { 2 };
            b.extend_from_slice(&[pre, 2, 3, 0, 0, 0]);
            b.extend_from_slice(&sh.to_le_bytes());
            if pre > 1 {
                b.extend_from_slice(&(n as u32).to_le_bytes());
                b.extend_from_slice(&[0, 0, 0, 0]);
            }
            if pre > 2 {
                b.extend_from_slice(&theta.to_le_bytes());
            }
        }
        _ => {
            let pre = if est { 3 } else if empty || n == 1 { 1 } else { 2 };
            let flags = 2 | 8 | (if empty { 4 } else { 0 }) | (if ordered { 16 } else { 0 });
            b.extend_from_slice(&[pre, 3, 3, 0, 0, flags]);
            b.extend_from_slice(&sh.to_le_bytes());
            if pre > 1 {
                b.extend_from_slice(&(n as u32).to_le_bytes());
                b.extend_from_slice(&[0, 0, 0, 0]);
            }
            if est {
                b.extend_from_slice(&theta.to_le_bytes());
            }
        }
    }
    for &e in entries {
        b.extend_from_slice(&e.to_le_bytes());
    }
    b
}

fn cstate(c: &CompactThetaSketch, rk: &Ranks) -> Value {
    json!({"entries": c.iter().map(|h| rk.h(h)).collect::<Vec<_>>(), "theta": rk.r(c.theta64()),
           "empty": c.is_empty(), "ordered": c.is_ordered()})
}

/// Run one scenario: (lg_k, rf, p, seed, ops).
pub fn run(out: &mut Shards, scn: &str, lgk: u8, rf: u8, p: f32, seed: u64, ops: &[Op]) {
    // pass 1: every 63-bit value of the run, for the order-isomorphic projection
    let th0 = th0_of(p);
    let mut vals = vec![th0, MAX_THETA];
    for op in ops {
        match op {
            Op::Item(x) => vals.push(theta_hash_u64(*x, seed)),
            Op::Str(s) => vals.push(theta_hash_str(s, seed)),
            Op::Hash(h) => vals.push(*h),
            _ => {}
        }
    }
    let rk = Ranks::build(vals.into_iter());
    out.next_run(scn);
    let mut sk = ThetaSketch::builder()
        .lg_k(lgk)
        .resize_factor(rf_of(rf))
        .sampling_probability(p)
        .seed(seed)
        .build();
    out.ev(json!({"op":"TNew","id":0,"lgk":lgk,"rf":rf,"th0":rk.r(th0),"mx":rk.r(MAX_THETA)}));
    let mut ncmp = 0usize;
    let sc = |sk: &ThetaSketch, rk: &Ranks| {
        json!({"n": sk.num_retained(), "th": rk.r(sk.theta64()), "lg": sk.verif_table().0, "emp": sk.is_empty()})
    };
    let tabv = |sk: &ThetaSketch, rk: &Ranks| -> Value {
        json!(sk.verif_table().1.iter().map(|&h| rk.h(h)).collect::<Vec<_>>())
    };
    for (i, op) in ops.iter().enumerate() {
        let before_theta = sk.theta64();
        let before_lg = sk.verif_table().0;
        let before_n = sk.num_retained();
        let r = catch(std::panic::AssertUnwindSafe(|| {
            match op {
                Op::Item(x) => sk.update(*x),
                Op::Str(s) => sk.update(s.as_str()),
                Op::Hash(h) => sk.verif_insert_hash(*h),
                Op::Trim => sk.trim(),
                Op::Reset => sk.reset(),
                Op::Compact(_) => {}
            }
        }));
        if let Err(e) = r {
            let loc = e.split(": ").next().unwrap_or("").to_string();
            out.ev(json!({"op":"Panic","in":format!("{op:?}"),"key":loc,"msg":e}));
            return;
        }
        let rebuilt = sk.theta64() != before_theta || (matches!(op, Op::Trim) && sk.num_retained() != before_n);
        let o = obs_of(&seven_u(&sk), sk.is_empty(), sk.num_retained(), sk.is_estimation_mode(), sk.theta64());
        match op {
            Op::Item(_) | Op::Str(_) | Op::Hash(_) => {
                let hv = match op {
                    Op::Item(x) => theta_hash_u64(*x, seed),
                    Op::Str(s) => theta_hash_str(s, seed),
                    Op::Hash(h) => *h,
                    _ => 0,
                };
                let mut e = json!({"op":"TOff","id":0,"h":rk.h(hv),"st":sc(&sk, &rk),"o":o});
                if rebuilt {
                    e["tab"] = tabv(&sk, &rk);
                }
                out.ev(e);
            }
            Op::Trim => {
                let mut e = json!({"op":"TTrim","id":0,"st":sc(&sk, &rk),"o":o});
                if rebuilt {
                    e["tab"] = tabv(&sk, &rk);
                }
                out.ev(e);
            }
            Op::Reset => out.ev(json!({"op":"TReset","id":0,"st":sc(&sk, &rk),"o":o})),
            Op::Compact(ord) => {
                let r = catch(std::panic::AssertUnwindSafe(|| sk.compact(*ord)));
                let c = match r {
                    Ok(c) => c,
                    Err(e) => {
                        out.ev(json!({"op":"Panic","in":"compact","key":e.split(": ").next().unwrap_or(""),"msg":e}));
                        return;
                    }
                };
                let cid = ncmp;
                ncmp += 1;
                let sh = refhash::seed_hash(seed);
                let ents: Vec<u64> = c.iter().collect();
                let img3 = c.serialize();
                let img4 = c.serialize_compressed();
                let suitable = c.is_ordered() && !ents.is_empty() && (ents.len() != 1 || c.theta64() < MAX_THETA);
                let v4ref = !suitable || img4 == ref_v4(&ents, c.theta64(), sh);
                out.ev(json!({"op":"TCompact","id":0,"ord":ord,"to":cid,"c":cstate(&c, &rk),
                    "tok":[toks(&seven_u(&sk)), toks(&seven_c(&c))],
                    "eb":ents.iter().map(|&e| le8(e)).collect::<Vec<_>>(),"tb":le8(c.theta64()),"sh":sh.to_le_bytes().to_vec(),
                    "img3":img3,"img4":img4,"v4ref":v4ref,
                    "o":obs_of(&seven_c(&c), c.is_empty(), c.num_retained(), c.is_estimation_mode(), c.theta64())}));
                // C13: the same compact state as an image of every serial version
                if ents.len() <= 300 {
                    let mut sorted = ents.clone();
                    sorted.sort();
                    for ver in 1..=4u8 {
                        let (es, ordered) = if ver == 3 { (ents.clone(), c.is_ordered()) } else { (sorted.clone(), true) };
                        let est = c.theta64() < MAX_THETA;
                        if ver == 4 && (es.is_empty() || (es.len() == 1 && !est)) {
                            continue; // no v4 form for empty / single-item sketches
                        }
                        if ver == 1 && !c.is_empty() && es.is_empty() && !est {
                            continue;
                        }
                      // an empty serial-version-3 image is read without looking at its seed hash: Java's
                      // canonical empty image (01 03 03 00 00 1E 00 00) carries 0 there
                      let shs: Vec<u16> = if c.is_empty() && ver == 3 { vec![sh, 0, 0x1234] } else { vec![sh] };
                      for sh in shs {
                        let img = if ver == 4 { ref_v4(&es, c.theta64(), sh) } else { enc_v123(ver, &es, c.theta64(), c.is_empty(), ordered, sh) };
                        let to = ncmp;
                        ncmp += 1;
                        let abs = json!({"entries": es.iter().map(|&h| rk.h(h)).collect::<Vec<_>>(), "theta": rk.r(c.theta64()),
                            "empty": c.is_empty(), "ordered": ordered});
                        let r = catch(std::panic::AssertUnwindSafe(|| CompactThetaSketch::deserialize_with_seed(&img, seed)));
                        let base = json!({"op":"CLoad","to":to,"ver":ver,"abs":abs,"img":img,"mx":rk.r(MAX_THETA),"lgk":lgk,
                            "eb":es.iter().map(|&e| le8(e)).collect::<Vec<_>>(),"tb":le8(c.theta64()),"sh":sh.to_le_bytes().to_vec()});
                        match r {
                            Ok(Ok(b)) => {
                                let mut e = base;
                                e["ok"] = json!(true);
                                e["c"] = cstate(&b, &rk);
                                // the seed hash the decoded sketch carries (what it writes into its own image)
                                let again = b.serialize();
                                e["sho"] = json!(again[6..8].to_vec());
                                e["shx"] = json!(refhash::seed_hash(seed).to_le_bytes().to_vec());
                                e["o"] = obs_of(&seven_c(&b), b.is_empty(), b.num_retained(), b.is_estimation_mode(), b.theta64());
                                out.ev(e);
                            }
                            Ok(Err(err)) => {
                                let mut e = base;
                                e["ok"] = json!(false);
                                e["c"] = json!({"entries":[],"theta":0,"empty":false,"ordered":false});
                                e["o"] = json!({});
                                e["err"] = json!(format!("{err:?}"));
                                out.ev(e);
                                return;
                            }
                            Err(p) => {
                                out.ev(json!({"op":"Panic","in":format!("deserialize-v{ver}"),"key":p.split(": ").next().unwrap_or(""),"msg":p}));
                                return;
                            }
                        }
                      }
                    }
                }
                // round trips in both forms
                for form in ["v3", "v4"] {
                    let r = catch(std::panic::AssertUnwindSafe(|| {
                        let bytes = if form == "v3" { c.serialize() } else { c.serialize_compressed() };
                        let back = CompactThetaSketch::deserialize_with_seed(&bytes, seed).map_err(|e| format!("{e:?}"));
                        (bytes, back)
                    }));
                    match r {
                        Ok((bytes, Ok(b))) => {
                            let again = if form == "v3" { b.serialize() } else { b.serialize_compressed() };
                            let to = ncmp;
                            ncmp += 1;
                            out.ev(json!({"op":"CRT","id":cid,"form":form,"to":to,"c":cstate(&b, &rk),
                                "tok":[toks(&seven_c(&c)), toks(&seven_c(&b))],"same":again == bytes,
                                "len":bytes.len(),
                                "o":obs_of(&seven_c(&b), b.is_empty(), b.num_retained(), b.is_estimation_mode(), b.theta64())}));
                        }
                        Ok((_, Err(e))) => {
                            out.ev(json!({"op":"Panic","in":format!("deserialize-own-image-{form}"),"key":"Err","msg":e}));
                            return;
                        }
                        Err(e) => {
                            out.ev(json!({"op":"Panic","in":format!("roundtrip-{form}"),"key":e.split(": ").next().unwrap_or(""),"msg":e}));
                            return;
                        }
                    }
                }
            }
        }
        let lg_changed = sk.verif_table().0 != before_lg;
        if lg_changed || rebuilt || (i + 1).is_power_of_two() || i + 1 == ops.len() || matches!(op, Op::Reset) {
            out.ev(json!({"op":"TChk","id":0,"tab":tabv(&sk, &rk)}));
        }
    }
}

fn random_ops(rng: &mut Rng, n: usize, dup_pct: u64, strs: bool) -> Vec<Op> {
    let mut ops = vec![];
    let mut items: Vec<u64> = vec![];
    for i in 0..n {
        let x = if !items.is_empty() && rng.chance(dup_pct, 100) {
            *rng.pick(&items)
        } else {
            let x = rng.next();
            items.push(x);
            x
        };
        ops.push(if strs { Op::Str(format!("value_{}", x % 100000)) } else { Op::Item(x) });
        if rng.chance(1, 200) {
            ops.push(Op::Trim);
        }
        if rng.chance(1, 150) {
            ops.push(Op::Compact(rng.chance(1, 2)));
        }
        if rng.chance(1, 1500) {
            ops.push(Op::Reset);
        }
        if i + 1 == n {
            ops.push(Op::Compact(true));
            ops.push(Op::Trim);
            ops.push(Op::Compact(false));
        }
    }
    ops
}

/// Appendix B: probe-collision families, hashes adjacent to theta, trim/reset/compact around them
fn crafted_ops(rng: &mut Rng, lgk: u8) -> Vec<Op> {
    let k = 1u64 << lgk;
    let size = 2 * k;
    let mut ops = vec![];
    let base = 1 + rng.below(size - 1);
    // same table index for every table size up to 2k: h, h + 2k*128*j (same stride too)
    for j in 0..(k / 4).min(40) {
        ops.push(Op::Hash(base + size * 128 * (j + 1)));
    }
    // same index, different strides
    for j in 1..(k / 4).min(40) {
        ops.push(Op::Hash(base + size * j));
    }
    ops.push(Op::Compact(false));
    ops.push(Op::Trim);
    // fill to the rebuild threshold with a spread of values
    let mut v: Vec<u64> = (0..(2 * k)).map(|j| 1000 + j * 7919 + rng.below(5000)).collect();
    rng.shuffle(&mut v);
    for (i, h) in v.iter().enumerate() {
        ops.push(Op::Hash(*h));
        if i % 97 == 0 {
            ops.push(Op::Hash(*h)); // duplicate
        }
        if i as u64 == k + k / 2 {
            ops.push(Op::Compact(true));
        }
    }
    ops.push(Op::Trim);
    ops.push(Op::Compact(true));
    ops
}

/// after a rebuild: offer theta-1, theta, theta+1 (needs the run-time theta, so the values are
/// found by a dry run on a scratch sketch first)
fn around_theta_ops(rng: &mut Rng, lgk: u8, rf: u8, seed: u64) -> Vec<Op> {
    let k = 1u64 << lgk;
    let mut ops: Vec<Op> = (0..(2 * k)).map(|_| Op::Hash(1 + rng.below(1 << 40))).collect();
    let mut sk = ThetaSketch::builder().lg_k(lgk).resize_factor(rf_of(rf)).seed(seed).build();
    for op in &ops {
        if let Op::Hash(h) = op {
            sk.verif_insert_hash(*h);
        }
    }
    let t = sk.theta64();
    if t < MAX_THETA {
        for d in [t - 1, t, t + 1, t - 2] {
            ops.push(Op::Hash(d));
        }
    }
    ops.push(Op::Trim);
    ops.push(Op::Compact(true));
    ops.push(Op::Reset);
    ops.push(Op::Compact(true));
    for _ in 0..10 {
        ops.push(Op::Hash(1 + rng.below(1 << 40)));
    }
    ops.push(Op::Compact(false));
    ops
}

/// through the PUBLIC update path: once theta has dropped, re-offer the very item whose hash is theta
/// (it was offered and then discarded), the items just below it and duplicates of retained items
fn public_boundary_ops(rng: &mut Rng, lgk: u8, rf: u8, seed: u64) -> Vec<Op> {
    let k = 1u64 << lgk;
    let items: Vec<u64> = (0..(3 * k)).map(|_| rng.next()).collect();
    let mut ops: Vec<Op> = vec![];
    let mut sk = ThetaSketch::builder().lg_k(lgk).resize_factor(rf_of(rf)).seed(seed).build();
    let mut last_theta = MAX_THETA;
    for (i, &x) in items.iter().enumerate() {
        sk.update(x);
        ops.push(Op::Item(x));
        if sk.theta64() != last_theta || (i % 50 == 49 && sk.theta64() < MAX_THETA) {
            last_theta = sk.theta64();
            // the item whose hash equals theta, and a retained one
            if let Some(&it) = items[..=i].iter().find(|&&y| theta_hash_u64(y, seed) == last_theta) {
                ops.push(Op::Item(it));
                sk.update(it);
                ops.push(Op::Compact(true));
            }
            if let Some(&it) = items[..=i].iter().find(|&&y| theta_hash_u64(y, seed) < last_theta) {
                ops.push(Op::Item(it));
                sk.update(it);
            }
        }
        if i as u64 == 2 * k {
            ops.push(Op::Trim);
            sk.trim();
            last_theta = MAX_THETA; // force the boundary probe after the trim
        }
    }
    ops.push(Op::Compact(false));
    ops
}

/// sampling sketch whose updates are all screened out, then compact / bounds (C01, C04)
/// trim at exactly k retained entries (nothing to do), twice, and right after the automatic rebuild
fn exact_k_trim_ops(rng: &mut Rng, lgk: u8, extra: usize) -> Vec<Op> {
    let k = 1usize << lgk;
    let mut ops: Vec<Op> = (0..k + extra).map(|_| Op::Item(rng.next())).collect();
    ops.push(Op::Trim);
    ops.push(Op::Compact(true));
    if extra > 0 {
        // every item again: what is retained is found where it is, what was trimmed away is screened out
        let again: Vec<Op> = ops[..k + extra].to_vec();
        ops.extend(again);
        ops.push(Op::Compact(true));
    }
    ops.push(Op::Trim);
    // on to the first rebuild (15/8 k entries), then trim twice
    for _ in 0..k {
        ops.push(Op::Item(rng.next()));
    }
    ops.push(Op::Trim);
    ops.push(Op::Trim);
    ops.push(Op::Compact(true));
    ops
}

fn screened_ops(rng: &mut Rng, p: f32) -> Vec<Op> {
    let th0 = th0_of(p);
    let mut ops = vec![Op::Compact(true)];
    for _ in 0..5 {
        ops.push(Op::Hash(th0 + 1 + rng.below(1000)));
    }
    ops.push(Op::Hash(th0));
    ops.push(Op::Compact(true));
    ops.push(Op::Compact(false));
    // reset while everything so far was screened out (nothing retained, but not empty any more)
    ops.push(Op::Reset);
    ops.push(Op::Compact(true));
    ops.push(Op::Hash(th0 + 7));
    ops.push(Op::Trim);
    ops.push(Op::Hash(th0 - 1));
    ops.push(Op::Compact(true));
    ops.push(Op::Reset);
    ops.push(Op::Compact(true));
    ops
}

/// compact theta round trips over entry sets with chosen delta widths and lengths (C11)
fn widths_ops(rng: &mut Rng, bits: u32, n: usize) -> Vec<Op> {
    let mut ops = vec![];
    let mut cur = 0u64;
    let maxd = if bits >= 63 { MAX_THETA / (n as u64 + 1) } else { (1u64 << bits) - 1 };
    for i in 0..n {
        let d = if i == 0 { maxd.max(1) } else { 1 + rng.below(maxd.max(1)) };
        cur = cur.saturating_add(d);
        if cur >= MAX_THETA {
            break;
        }
        ops.push(Op::Hash(cur));
    }
    ops.push(Op::Compact(true));
    ops.push(Op::Compact(false));
    ops
}

/// compressed images whose entry count needs 3 bytes (65 536 .. 16 777 215 entries): too large for a trace
/// event, so the comparison with the encoded entry list is made here and only its outcome is logged
fn large_v4(out: &mut Shards, rng: &mut Rng, n: usize) {
    out.next_run("theta-large-v4");
    let seed = 9001u64;
    let sh = refhash::seed_hash(seed);
    let step = (MAX_THETA / 2) / n as u64;
    let mut cur = 0u64;
    let entries: Vec<u64> = (0..n).map(|_| { cur += 1 + rng.below(step); cur }).collect();
    let theta = cur + 1 + rng.below(step);
    let img = ref_v4(&entries, theta, sh);
    let r = catch(std::panic::AssertUnwindSafe(|| CompactThetaSketch::deserialize_with_seed(&img, seed)));
    let (ok, same, again, err) = match r {
        Ok(Ok(c)) => {
            let got: Vec<u64> = c.iter().collect();
            (true, got == entries && c.theta64() == theta && c.is_ordered() && !c.is_empty(), c.serialize_compressed() == img, String::new())
        }
        Ok(Err(e)) => (false, false, false, format!("{e:?}")),
        Err(p) => {
            out.ev(json!({"op":"Panic","in":"deserialize-v4-large","key":p.split(": ").next().unwrap_or(""),"msg":p}));
            return;
        }
    };
    out.ev(json!({"op":"CLoadBig","n":n,"nbytes":img[4],"ok":ok,"same":same,"again":again,"err":err}));
}

pub fn record(args: &Args) {
    let seed = args.u64("seed", 1);
    let mut rng = Rng::new(seed ^ 0x7E7A);
    let thorough = args.thorough();
    let mut out = Shards::create(&args.str("out", "theta"), args.u64("shards", 8) as usize);
    let reps = if thorough { 5 } else { 1 };
    for rep in 0..reps {
        let lgks: Vec<u8> = if thorough { (5..=12).collect() } else { vec![5, 6, 7, 8, 10] };
        for &lgk in &lgks {
            for rf in 0..4u8 {
                let k = 1usize << lgk;
                let p = *rng.pick(&[1.0f32, 1.0, 0.5, 0.1]);
                let sseed = if rng.chance(1, 2) { 9001 } else { rng.next() | 1 };
                if refhash::seed_hash(sseed) == 0 {
                    continue;
                }
                let n = ((if p < 1.0 { 6 } else { 3 }) * k).min(if thorough { 20000 } else { 7000 });
                let ops = random_ops(&mut rng, n, 8, rf == 2);
                run(&mut out, "theta-random", lgk, rf, p, sseed, &ops);
            }
        }
        if rep == 0 || thorough {
            // one large configuration: table of 8192 slots
            let ops = random_ops(&mut rng, if thorough { 17000 } else { 4600 }, 5, false);
            run(&mut out, "theta-random", if thorough { 12 } else { 11 }, 3, 1.0, 9001, &ops);
        }
        if thorough && rep == 0 {
            // lg_k 13 and 14 (C01 quantifies to 14): past the first rebuild, exact and sampling
            for &(lgk, p) in &[(13u8, 1.0f32), (13, 0.5)] {
                let ops = random_ops(&mut rng, (9usize << lgk) / 4, 3, false);
                run(&mut out, "theta-random", lgk, 3, p, 9001, &ops);
            }
        }
        for &lgk in &[5u8, 6, 7, 8] {
            for rf in 0..4u8 {
                let ops = crafted_ops(&mut rng, lgk);
                run(&mut out, "theta-crafted-collisions", lgk, rf, 1.0, 9001, &ops);
                let ops = around_theta_ops(&mut rng, lgk, rf, 9001);
                run(&mut out, "theta-around-theta", lgk, rf, 1.0, 9001, &ops);
            }
        }
        for &lgk in &[5u8, 6, 8] {
            let rf = rng.below(4) as u8;
            let ops = public_boundary_ops(&mut rng, lgk, rf, 9001);
            run(&mut out, "theta-public-boundary", lgk, rf, 1.0, 9001, &ops);
        }
        for &lgk in &[5u8, 6, 7] {
            for rf in [0u8, 3] {
                let ops = exact_k_trim_ops(&mut rng, lgk, 0);
                run(&mut out, "theta-trim-at-k", lgk, rf, 1.0, 9001, &ops);
            }
            for rf in [0u8, 1, 2, 3] {
                for rep in 0..(if thorough { 12 } else { 4 }) {
                    let ops = exact_k_trim_ops(&mut rng, lgk, 1 + rep % 2);
                    run(&mut out, "theta-trim-above-k", lgk, rf, 1.0, 9001, &ops);
                }
            }
        }
        // probabilities so small that p * 2^63 truncates to 0 (theta starts at the smallest positive value)
        for &p in &[1e-20f32, 1e-30] {
            let ops = vec![Op::Compact(true), Op::Item(1), Op::Item(2), Op::Compact(true), Op::Compact(false), Op::Trim, Op::Item(3), Op::Reset, Op::Compact(true)];
            run(&mut out, "theta-sampling-tiny", 5, 3, p, 9001, &ops);
        }
        for &p in &[0.5f32, 0.01, 0.9] {
            let ops = screened_ops(&mut rng, p);
            run(&mut out, "theta-sampling-screened", 5 + rng.below(6) as u8, rng.below(4) as u8, p, 9001, &ops);
        }
        let lens: Vec<usize> = if thorough {
            (0..=40).chain([63, 64, 65, 255, 256, 257, 511, 512, 1000, 4095, 4096, 4100]).collect()
        } else {
            vec![0, 1, 2, 3, 7, 8, 9, 15, 16, 17, 31, 255, 256, 257, 1000]
        };
        for &n in &lens {
            let bits = if thorough { rng.range(1, 63) as u32 } else { *rng.pick(&[1u32, 2, 7, 8, 13, 31, 32, 33, 47, 62, 63]) };
            let lgk = if n > 3000 { 12 } else if n > 400 { 10 } else if n > 50 { 9 } else { 6 };
            // keep the table from rebuilding: n <= 15/16 * 2k
            let ops = widths_ops(&mut rng, bits, n);
            run(&mut out, "theta-compact-widths", lgk, 3, 1.0, 9001, &ops);
        }
    }
    large_v4(&mut out, &mut rng, 70_000);
    large_v4(&mut out, &mut rng, 65_536);
    if thorough {
        large_v4(&mut out, &mut rng, 1 << 20);
    }
    if let Some(path) = args.get("in") {
        replay_gen(&mut out, path);
    }
    let (runs, events) = out.finish();
    println!("{}", json!({"runs":runs,"events":events}));
}

/// TLC-generated behaviours: {"lgk":5,"rf":3,"ops":[["o",h],["t"],["r"],["c",1]]}
pub fn replay_gen(out: &mut Shards, path: &str) {
    let text = std::fs::read_to_string(path).expect("behaviours file");
    for line in text.lines() {
        let b: Value = serde_json::from_str(line).expect("behaviour");
        let lgk = b["lgk"].as_u64().unwrap() as u8;
        let rf = b["rf"].as_u64().unwrap() as u8;
        let mut ops = vec![];
        for op in b["ops"].as_array().unwrap() {
            match op[0].as_str().unwrap() {
                "o" => ops.push(Op::Hash(op[1].as_u64().unwrap())),
                "t" => ops.push(Op::Trim),
                "r" => ops.push(Op::Reset),
                _ => ops.push(Op::Compact(op[1].as_u64().unwrap() == 1)),
            }
        }
        ops.push(Op::Compact(true));
        run(out, "theta-tlc-behaviour", lgk, rf, 1.0, 9001, &ops);
    }
}
