//! Frequent items: drive FrequentItemsSketch<i64 | u64 | String> and record traces for Trace_FreqItems.tla.
use datasketches::frequencies::{ErrorType, FrequentItemValue, FrequentItemsSketch};
use serde_json::{Value, json};

use crate::refhash;
use crate::util::*;

/// low 20 bits of hash_item(item) = murmur3(Hash bytes of the item, seed 9001).h1
pub fn lo_of<T: std::hash::Hash>(item: &T) -> u64 {
    refhash::murmur3_x64_128(&refhash::hashed_bytes(item), 9001).0 & ((1 << 20) - 1)
}

/// the three item types the library serializes
pub trait FiItem: FrequentItemValue + std::fmt::Debug {
    const TY: &'static str;
    /// the c-th candidate item
    fn make(c: u64) -> Self;
    /// the item's own bytes (8 little-endian bytes of an integer, the UTF-8 bytes of a string)
    fn raw(&self) -> Vec<u8>;
    /// length of the encoded item starting at x[0]
    fn enc_len(x: &[u8]) -> usize;
}

impl FiItem for i64 {
    const TY: &'static str = "i64";
    fn make(c: u64) -> Self { if c % 5 == 0 { -(c as i64) } else { c as i64 } }
    fn raw(&self) -> Vec<u8> { self.to_le_bytes().to_vec() }
    fn enc_len(_x: &[u8]) -> usize { 8 }
}

impl FiItem for u64 {
    const TY: &'static str = "u64";
    fn make(c: u64) -> Self { if c % 3 == 0 { u64::MAX - c } else { c } }
    fn raw(&self) -> Vec<u8> { self.to_le_bytes().to_vec() }
    fn enc_len(_x: &[u8]) -> usize { 8 }
}

impl FiItem for String {
    const TY: &'static str = "str";
    fn make(c: u64) -> Self {
        match c % 4 {
            0 => format!("{c}"),
            1 => format!("item-{c}-\u{e9}\u{4e16}"),      // multi-byte characters: byte length != char count
            2 => format!("{}{c}", "x".repeat((c % 40) as usize)),
            _ => format!("k{c}"),
        }
    }
    fn raw(&self) -> Vec<u8> { self.as_bytes().to_vec() }
    fn enc_len(x: &[u8]) -> usize { 4 + u32::from_le_bytes([x[0], x[1], x[2], x[3]]) as usize }
}

pub struct Alpha<T> {
    pub items: Vec<T>,
}

impl<T: FiItem> Alpha<T> {
    /// id of an item = its index + 1
    fn x(&self, idx: usize) -> Value {
        json!([idx + 1, lo_of(&self.items[idx])])
    }
    fn id_of(&self, item: &T) -> usize {
        self.items.iter().position(|i| i == item).map(|p| p + 1).unwrap_or(0)
    }
}

fn sc<T: FiItem>(s: &FrequentItemsSketch<T>) -> Value {
    json!({"na": s.num_active_items(), "off": s.maximum_error(), "wt": s.total_weight(), "lg": s.lg_cur_map_size(),
        "lgm": s.lg_max_map_size(), "mcap": s.maximum_map_capacity()})
}

fn slots<T: FiItem>(s: &FrequentItemsSketch<T>, a: &Alpha<T>) -> Value {
    json!(s.verif_slots().iter().map(|(k, v, d)| match k {
        Some(item) => json!([a.id_of(item), lo_of(item), v, d]),
        None => json!([0, 0, 0, 0]),
    }).collect::<Vec<_>>())
}

/// equality of two frequent-items images up to the order of the (value, item) pairs, which
/// follows the slot order of the writer's map
pub fn same_mod_order<T: FiItem>(a: &[u8], b: &[u8]) -> bool {
    if a.len() != b.len() {
        return false;
    }
    if a.len() <= 32 {
        return a == b;
    }
    if a[..32] != b[..32] {
        return false;
    }
    let n = u32::from_le_bytes([a[8], a[9], a[10], a[11]]) as usize;
    let pairs = |x: &[u8]| -> Option<Vec<(Vec<u8>, Vec<u8>)>> {
        let mut v = vec![];
        let mut at = 32 + 8 * n;
        for i in 0..n {
            if at + 4 > x.len() && T::TY == "str" {
                return None;
            }
            let len = T::enc_len(&x[at.min(x.len() - 4)..]);
            if at + len > x.len() {
                return None;
            }
            v.push((x[32 + 8 * i..40 + 8 * i].to_vec(), x[at..at + len].to_vec()));
            at += len;
        }
        v.sort();
        Some(v)
    };
    match (pairs(a), pairs(b)) {
        (Some(x), Some(y)) => x == y,
        _ => false,
    }
}

pub struct Sess<'a, T: FiItem> {
    out: &'a mut Shards,
    sk: Vec<FrequentItemsSketch<T>>,
    a: Alpha<T>,
    dead: bool,
}

impl<'a, T: FiItem> Sess<'a, T> {
    pub fn new(out: &'a mut Shards, scn: &str, a: Alpha<T>) -> Self {
        out.next_run(scn);
        Sess { out, sk: vec![], a, dead: false }
    }
    fn panic(&mut self, what: &str, e: String) {
        self.out.ev(json!({"op":"Panic","in":what,"key":e.split(": ").next().unwrap_or(""),"msg":e}));
        self.dead = true;
    }
    pub fn new_sketch(&mut self, lgmax: u8) -> usize {
        let id = self.sk.len();
        self.sk.push(FrequentItemsSketch::new(1usize << lgmax));
        self.out.ev(json!({"op":"FNew","id":id,"lgmax":lgmax}));
        id
    }
    /// a sketch decoded from an empty image whose map is larger than the minimum (the C++ constructor takes a
    /// starting size): it holds nothing, and keeps the map size the image states
    pub fn from_empty_image(&mut self, lgmax: u8, lgcur: u8, flags: u8) -> usize {
        let id = self.sk.len();
        let img = vec![1u8, 1, 10, lgmax, lgcur, flags, 0, 0];
        match catch(std::panic::AssertUnwindSafe(|| FrequentItemsSketch::<T>::deserialize(&img))) {
            Ok(Ok(s)) => {
                let again = s.serialize();
                // (this library writes flags 5 for an empty sketch; Java reads 4 and 5 alike)
                let same = again[..5] == img[..5] && again.len() == 8;
                let v = json!({"op":"FFrom","id":id,"lgmax":lgmax,"lgcur":lgcur,"st":sc(&s),"same":same,"empty":s.is_empty()});
                self.out.ev(v);
                self.sk.push(s);
            }
            Ok(Err(e)) => {
                self.out.ev(json!({"op":"Panic","in":"deserialize-valid-image","key":"Err","msg":format!("{e:?}")}));
                self.dead = true;
                self.sk.push(FrequentItemsSketch::new(8));
            }
            Err(e) => {
                self.panic("deserialize", e);
                self.sk.push(FrequentItemsSketch::new(8));
            }
        }
        id
    }
    pub fn upd(&mut self, id: usize, idx: usize, w: u64) {
        if self.dead { return; }
        let item = self.a.items[idx].clone();
        let r = catch(std::panic::AssertUnwindSafe(|| self.sk[id].update_with_count(item, w)));
        if let Err(e) = r { return self.panic("update_with_count", e); }
        let v = json!({"op":"FUpd","id":id,"x":self.a.x(idx),"w":w,"st":sc(&self.sk[id])});
        self.out.ev(v);
    }
    pub fn merge(&mut self, id: usize, src: usize) {
        if self.dead { return; }
        let other = self.sk[src].clone();
        let r = catch(std::panic::AssertUnwindSafe(|| self.sk[id].merge(&other)));
        if let Err(e) = r { return self.panic("merge", e); }
        let v = json!({"op":"FMerge","id":id,"src":src,"st":sc(&self.sk[id])});
        self.out.ev(v);
    }
    pub fn reset(&mut self, id: usize) {
        if self.dead { return; }
        self.sk[id].reset();
        let v = json!({"op":"FReset","id":id,"st":sc(&self.sk[id])});
        self.out.ev(v);
    }
    pub fn chk(&mut self, id: usize) {
        if self.dead { return; }
        let s = &self.sk[id];
        let q: Vec<Value> = (0..self.a.items.len()).map(|i| {
            let it = &self.a.items[i];
            json!([i + 1, lo_of(it), s.lower_bound(it), s.upper_bound(it), s.estimate(it)])
        }).collect();
        let mut nfp: Vec<usize> = s.frequent_items(ErrorType::NoFalsePositives).iter().map(|r| self.a.id_of(r.item())).collect();
        let mut nfn: Vec<usize> = s.frequent_items(ErrorType::NoFalseNegatives).iter().map(|r| self.a.id_of(r.item())).collect();
        nfp.sort();
        nfn.sort();
        let mut v = json!({"op":"FChk","id":id,"slots":slots(s, &self.a),"q":q,"nfp":nfp,"nfn":nfn,"maxerr":s.maximum_error(),"ty":T::TY});
        if s.lg_cur_map_size() <= 6 {
            v["img"] = json!(s.serialize());
            v["ib"] = json!(s.verif_slots().iter().filter_map(|(k, _, _)| k.as_ref().map(|x| x.raw())).collect::<Vec<_>>());
        }
        self.out.ev(v);
    }
    pub fn rt(&mut self, id: usize) -> usize {
        let to = self.sk.len();
        if self.dead {
            self.sk.push(FrequentItemsSketch::new(8));
            return to;
        }
        let s = self.sk[id].clone();
        let r = catch(std::panic::AssertUnwindSafe(|| {
            let bytes = s.serialize();
            let back = FrequentItemsSketch::<T>::deserialize(&bytes).map_err(|e| format!("{e:?}"));
            (bytes, back)
        }));
        match r {
            Ok((bytes, Ok(b))) => {
                let again = b.serialize();
                let v = json!({"op":"FRT","id":id,"to":to,"slots":slots(&b, &self.a),"st":sc(&b),"same":again == bytes,
                    "samex":same_mod_order::<T>(&again, &bytes),"len":bytes.len()});
                self.out.ev(v);
                self.sk.push(b);
            }
            Ok((_, Err(e))) => {
                self.out.ev(json!({"op":"Panic","in":"deserialize-own-image","key":"Err","msg":e}));
                self.dead = true;
                self.sk.push(FrequentItemsSketch::new(8));
            }
            Err(e) => {
                self.panic("roundtrip", e);
                self.sk.push(FrequentItemsSketch::new(8));
            }
        }
        to
    }
}

/// items chosen so that their home slots (for a map of 2^lg slots) form long clusters,
/// including one that wraps around the end of the array
fn clustered_items<T: FiItem>(rng: &mut Rng, lg: u8, n: usize) -> Vec<T> {
    let size = 1u64 << lg;
    let mut items = vec![];
    let mut cand = rng.next() & 0xffff_ffff;
    let homes = [size - 2, size - 1, 0, 1, size / 2];
    while items.len() < n {
        cand += 1;
        let it = T::make(cand);
        let h = lo_of(&it) % size;
        if homes.contains(&h) || rng.chance(1, 6) {
            items.push(it);
        }
    }
    items
}

fn stream<T: FiItem>(s: &mut Sess<T>, rng: &mut Rng, id: usize, n_items: usize, n: usize, shape: u8) {
    for i in 0..n {
        if s.dead { break; }
        let idx = match shape {
            0 => rng.below(n_items as u64) as usize,                       // uniform
            1 => {                                                         // skewed
                let r = rng.f64();
                ((r * r * r) * n_items as f64) as usize
            }
            2 => i % n_items,                                              // all distinct, round robin
            _ => if rng.chance(3, 10) { rng.below(3) as usize } else { rng.below(n_items as u64) as usize },
        };
        let w = match shape {
            2 => 1,
            3 => if idx < 3 { 1000 - rng.below(50) } else { 1 },
            _ => 1 + rng.below(4),
        };
        s.upd(id, idx.min(n_items - 1), w);
        if (i + 1) % 37 == 0 { s.chk(id); }
    }
    s.chk(id);
}

fn scenarios<T: FiItem>(out: &mut Shards, rng: &mut Rng, thorough: bool, full: bool) {
        {
        // single sketches, every stream shape
        for &lgmax in if full { &[3u8, 4, 5, 6, 7][..] } else { &[3u8, 4, 6][..] } {
            for shape in 0..4u8 {
                let cap = 3 * (1usize << lgmax) / 4;
                let n_items = cap + 1 + rng.below(2 * cap as u64) as usize;
                let a = Alpha::<T> { items: clustered_items(&mut *rng, lgmax, n_items) };
                let mut s = Sess::new(&mut *out, "fi-stream", a);
                let id = s.new_sketch(lgmax);
                stream(&mut s, &mut *rng, id, n_items, (6 * n_items).min(if thorough { 900 } else { 500 }), shape);
                let r = s.rt(id);
                stream(&mut s, &mut *rng, r, n_items, 40, 0);
                s.reset(id);
                s.chk(id);
                let e = s.rt(id);
                s.chk(e);
            }
        }
        // configurations below the minimum map size (new(1), new(2), new(4)) behave as new(8)
        for &lgreq in &[0u8, 1, 2] {
            let a = Alpha::<T> { items: clustered_items(&mut *rng, 3, 14) };
            let mut s = Sess::new(&mut *out, "fi-tiny", a);
            let id = s.new_sketch(lgreq);
            stream(&mut s, &mut *rng, id, 14, 60, 0);
            let r = s.rt(id);
            stream(&mut s, &mut *rng, r, 14, 20, 2);
        }
        // empty images that state a map larger than the minimum, then a stream on the decoded sketch
        for &(lgmax, lgcur) in &[(5u8, 5u8), (6, 4), (7, 5), (10, 6), (4, 3), (6, 6)] {
            let n_items = 3 * (1usize << lgcur) / 4 + 9;
            let a = Alpha::<T> { items: clustered_items(&mut *rng, lgcur, n_items) };
            let mut s = Sess::new(&mut *out, "fi-empty-image", a);
            let id = s.from_empty_image(lgmax, lgcur, if lgcur % 2 == 0 { 5 } else { 4 });
            s.chk(id);
            stream(&mut s, &mut *rng, id, n_items, 3 * n_items, 0);
            let r = s.rt(id);
            s.chk(r);
            let fresh = s.new_sketch(lgmax);
            s.merge(fresh, id);
            s.chk(fresh);
        }
        // Appendix B: all-equal counts make the purge remove every counter, then merge / serialize
        for &lgmax in &[3u8, 4, 5] {
            let cap = 3 * (1usize << lgmax) / 4;
            let a = Alpha::<T> { items: clustered_items(&mut *rng, lgmax, 3 * cap) };
            let mut s = Sess::new(&mut *out, "fi-purge-to-empty", a);
            let x = s.new_sketch(lgmax);
            for i in 0..=cap { s.upd(x, i, 1); }
            s.chk(x);
            let y = s.new_sketch(lgmax);
            for i in 0..4 { s.upd(y, cap + 1 + i, 5); }
            s.merge(y, x);
            s.chk(y);
            let z = s.rt(x);
            s.chk(z);
            s.merge(z, y);
            s.chk(z);
            let w = s.new_sketch(lgmax);
            s.merge(w, x);
            s.merge(w, x);
            s.chk(w);
            // a receiver that took over an offset while its own map was still small keeps growing like any other
            let w2 = s.new_sketch(lgmax);
            s.upd(w2, 0, 2);
            s.merge(w2, x);
            stream(&mut s, &mut *rng, w2, 3 * cap, 5 * cap, 0);
            s.chk(w2);
            // equal counts 2,2,...,2,3
            let v = s.new_sketch(lgmax);
            for i in 0..=cap { s.upd(v, i, if i == cap { 3 } else { 2 }); }
            s.chk(v);
            s.merge(v, x);
            s.chk(v);
        }
        // a small receiver merges a sketch of the same maximum size that has already purged, then goes on
        for &lgmax in &[5u8, 6, 7] {
            let cap = 3 * (1usize << lgmax) / 4;
            let n_items = 3 * cap;
            let a = Alpha::<T> { items: clustered_items(&mut *rng, lgmax, n_items) };
            let mut s = Sess::new(&mut *out, "fi-merge-then-grow", a);
            let x = s.new_sketch(lgmax);
            stream(&mut s, &mut *rng, x, n_items, 4 * cap, 2);
            for few in [0usize, 2, 7] {
                let y = s.new_sketch(lgmax);
                for i in 0..few {
                    s.upd(y, i, 1 + i as u64);
                }
                s.merge(y, x);
                s.chk(y);
                stream(&mut s, &mut *rng, y, n_items, 3 * cap, 0);
                s.chk(y);
            }
        }
        // merge trees of 2..5 sketches of equal and different sizes, round trips at nodes
        for t in 0..(if !full { 2 } else if thorough { 10 } else { 6 }) {
            let lgs: Vec<u8> = (0..rng.range(2, 5)).map(|_| if t % 2 == 0 { 4 } else { *rng.pick(&[3u8, 4, 5, 6]) }).collect();
            let n_items = 40 + rng.below(40) as usize;
            let a = Alpha::<T> { items: clustered_items(&mut *rng, 5, n_items) };
            let mut s = Sess::new(&mut *out, "fi-merge-tree", a);
            let mut ids = vec![];
            for &lg in &lgs {
                let id = s.new_sketch(lg);
                let shape = rng.below(4) as u8;
                let len = 60 + rng.below(120) as usize;
                stream(&mut s, &mut *rng, id, n_items, len, shape);
                ids.push(id);
            }
            while ids.len() > 1 && !s.dead {
                let b = ids.pop().unwrap();
                let i = rng.below(ids.len() as u64) as usize;
                let src = if rng.chance(1, 3) { s.rt(b) } else { b };
                s.merge(ids[i], src);
                s.chk(ids[i]);
            }
            let last = ids[0];
            let r = s.rt(last);
            stream(&mut s, &mut *rng, r, n_items, 30, 1);
        }
        // one large map (purge sample = first 1024 active counters in slot order)
        // (with weights spread over three decades the sampled median can sit well below the true one, so a
        // purge may leave more than half the capacity active)
        if full {
            let a = Alpha::<T> { items: (0..4000u64).map(|i| T::make(i * 7 + 1)).collect() };
            let mut s = Sess::new(&mut *out, "fi-large", a);
            let id = s.new_sketch(11);
            // (mostly new items, so that the map fills and is purged about every thousand updates)
            for i in 0..(if thorough { 9000usize } else { 5200 }) {
                let idx = if rng.chance(1, 4) { rng.below(20) as usize } else if rng.chance(1, 8) { rng.below(4000) as usize } else { (20 + i * 7) % 4000 };
                // (no two counts alike: the sampled median then sits below the true one about every other purge)
                let w = if thorough && rng.chance(1, 2) { 1 + rng.below(3) } else { 1 + rng.below(100_000) };
                s.upd(id, idx, w);
                if s.dead { break; }
            }
            s.chk(id);
        }
    }
}

pub fn record(args: &Args) {
    let seed = args.u64("seed", 1);
    let mut rng = Rng::new(seed ^ 0xF1F1);
    let thorough = args.thorough();
    let mut out = Shards::create(&args.str("out", "fi"), args.u64("shards", 8) as usize);
    let reps = if thorough { 6 } else { 1 };
    for rep in 0..reps {
        scenarios::<i64>(&mut out, &mut rng, thorough, true);
        // the other two serializable item types: same procedures, fewer repetitions
        if rep == 0 || thorough {
            scenarios::<u64>(&mut out, &mut rng, thorough, false);
            scenarios::<String>(&mut out, &mut rng, thorough, false);
        }
    }
    if let Some(path) = args.get("in") {
        replay_gen(&mut out, path);
    }
    let (runs, events) = out.finish();
    println!("{}", json!({"runs":runs,"events":events}));
}

/// TLC-generated behaviours: {"lgmax":3,"ops":[["u",itemIndex,w],["m"],["r"]]} over a fixed alphabet
pub fn replay_gen(out: &mut Shards, path: &str) {
    let text = std::fs::read_to_string(path).expect("behaviours file");
    for line in text.lines() {
        let b: Value = serde_json::from_str(line).expect("behaviour");
        let lgmax = b["lgmax"].as_u64().unwrap() as u8;
        // items whose hash low 4 bits are the ones the specification chose
        let items: Vec<i64> = b["lows"].as_array().unwrap().iter().enumerate().map(|(i, v)| {
            let want = v.as_u64().unwrap();
            let mut c = 1000 * (i as i64 + 1);
            while lo_of(&c) % 16 != want { c += 1; }
            c
        }).collect();
        let a = Alpha::<i64> { items };
        let mut s = Sess::new(out, "fi-tlc-behaviour", a);
        let x = s.new_sketch(lgmax);
        let y = s.new_sketch(lgmax);
        for op in b["ops"].as_array().unwrap() {
            match op[0].as_str().unwrap() {
                "u" => s.upd(x, op[1].as_u64().unwrap() as usize - 1, op[2].as_u64().unwrap()),
                "v" => s.upd(y, op[1].as_u64().unwrap() as usize - 1, op[2].as_u64().unwrap()),
                "m" => s.merge(x, y),
                _ => s.reset(y),
            }
        }
        s.chk(x);
        s.chk(y);
    }
}
