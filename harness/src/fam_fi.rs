//! Frequent items: drive FrequentItemsSketch<i64> and record traces for Trace_FreqItems.tla.
use datasketches::frequencies::{ErrorType, FrequentItemsSketch};
use serde_json::{Value, json};

use crate::refhash;
use crate::util::*;

/// low 20 bits of hash_item(item) = murmur3(Hash bytes of the item, seed 9001).h1
pub fn lo_of(item: i64) -> u64 {
    refhash::murmur3_x64_128(&refhash::hashed_bytes(&item), 9001).0 & ((1 << 20) - 1)
}

pub struct Alpha {
    pub items: Vec<i64>,
}

impl Alpha {
    /// id of an item = its index + 1
    fn x(&self, idx: usize) -> Value {
        json!([idx + 1, lo_of(self.items[idx])])
    }
    fn id_of(&self, item: i64) -> usize {
        self.items.iter().position(|&i| i == item).map(|p| p + 1).unwrap_or(0)
    }
}

fn sc(s: &FrequentItemsSketch<i64>) -> Value {
    json!({"na": s.num_active_items(), "off": s.maximum_error(), "wt": s.total_weight(), "lg": s.lg_cur_map_size()})
}

fn slots(s: &FrequentItemsSketch<i64>, a: &Alpha) -> Value {
    json!(s.verif_slots().iter().map(|(k, v, d)| match k {
        Some(item) => json!([a.id_of(*item), lo_of(*item), v, d]),
        None => json!([0, 0, 0, 0]),
    }).collect::<Vec<_>>())
}

/// equality of two i64 frequent-items images up to the order of the (value, item) pairs, which
/// follows the slot order of the writer's map
pub fn same_mod_order(a: &[u8], b: &[u8]) -> bool {
    if a.len() != b.len() {
        return false;
    }
    if a.len() <= 32 {
        return a == b;
    }
    if a[..32] != b[..32] {
        return false;
    }
    let n = (a.len() - 32) / 16;
    let pairs = |x: &[u8]| {
        let mut v: Vec<(Vec<u8>, Vec<u8>)> = (0..n)
            .map(|i| (x[32 + 8 * i..40 + 8 * i].to_vec(), x[32 + 8 * n + 8 * i..40 + 8 * n + 8 * i].to_vec()))
            .collect();
        v.sort();
        v
    };
    pairs(a) == pairs(b)
}

pub struct Sess<'a> {
    out: &'a mut Shards,
    sk: Vec<FrequentItemsSketch<i64>>,
    a: Alpha,
    dead: bool,
}

impl<'a> Sess<'a> {
    pub fn new(out: &'a mut Shards, scn: &str, a: Alpha) -> Self {
        out.next_run(scn);
        Sess { out, sk: vec![], a, dead: false }
    }
    fn panic(&mut self, what: &str, e: String) {
        self.out.ev(json!({"op":"Panic","in":what,"key":e.split(": ").next().unwrap_or(""),"msg":e}));
        self.dead = true;
    }
    pub fn new_sketch(&mut self, lgmax: u8) -> usize {
        let id = self.sk.len();
        self.sk.push(FrequentItemsSketch::new(1usize << lgmax));
        self.out.ev(json!({"op":"FNew","id":id,"lgmax":lgmax}));
        id
    }
    pub fn upd(&mut self, id: usize, idx: usize, w: u64) {
        if self.dead { return; }
        let item = self.a.items[idx];
        let r = catch(std::panic::AssertUnwindSafe(|| self.sk[id].update_with_count(item, w)));
        if let Err(e) = r { return self.panic("update_with_count", e); }
        let v = json!({"op":"FUpd","id":id,"x":self.a.x(idx),"w":w,"st":sc(&self.sk[id])});
        self.out.ev(v);
    }
    pub fn merge(&mut self, id: usize, src: usize) {
        if self.dead { return; }
        let other = self.sk[src].clone();
        let r = catch(std::panic::AssertUnwindSafe(|| self.sk[id].merge(&other)));
        if let Err(e) = r { return self.panic("merge", e); }
        let v = json!({"op":"FMerge","id":id,"src":src,"st":sc(&self.sk[id])});
        self.out.ev(v);
    }
    pub fn reset(&mut self, id: usize) {
        if self.dead { return; }
        self.sk[id].reset();
        let v = json!({"op":"FReset","id":id,"st":sc(&self.sk[id])});
        self.out.ev(v);
    }
    pub fn chk(&mut self, id: usize) {
        if self.dead { return; }
        let s = &self.sk[id];
        let q: Vec<Value> = (0..self.a.items.len()).map(|i| {
            let it = self.a.items[i];
            json!([i + 1, lo_of(it), s.lower_bound(&it), s.upper_bound(&it), s.estimate(&it)])
        }).collect();
        let mut nfp: Vec<usize> = s.frequent_items(ErrorType::NoFalsePositives).iter().map(|r| self.a.id_of(*r.item())).collect();
        let mut nfn: Vec<usize> = s.frequent_items(ErrorType::NoFalseNegatives).iter().map(|r| self.a.id_of(*r.item())).collect();
        nfp.sort();
        nfn.sort();
        let mut v = json!({"op":"FChk","id":id,"slots":slots(s, &self.a),"q":q,"nfp":nfp,"nfn":nfn,"maxerr":s.maximum_error()});
        if s.lg_cur_map_size() <= 6 {
            v["img"] = json!(s.serialize());
            v["ib"] = json!(s.verif_slots().iter().filter_map(|(k, _, _)| k.map(|x| x.to_le_bytes().to_vec())).collect::<Vec<_>>());
        }
        self.out.ev(v);
    }
    pub fn rt(&mut self, id: usize) -> usize {
        let to = self.sk.len();
        if self.dead {
            self.sk.push(FrequentItemsSketch::new(8));
            return to;
        }
        let s = self.sk[id].clone();
        let r = catch(std::panic::AssertUnwindSafe(|| {
            let bytes = s.serialize();
            let back = FrequentItemsSketch::<i64>::deserialize(&bytes).map_err(|e| format!("{e:?}"));
            (bytes, back)
        }));
        match r {
            Ok((bytes, Ok(b))) => {
                let again = b.serialize();
                let v = json!({"op":"FRT","id":id,"to":to,"slots":slots(&b, &self.a),"st":sc(&b),"same":again == bytes,
                    "samex":same_mod_order(&again, &bytes),"len":bytes.len()});
                self.out.ev(v);
                self.sk.push(b);
            }
            Ok((_, Err(e))) => {
                self.out.ev(json!({"op":"Panic","in":"deserialize-own-image","key":"Err","msg":e}));
                self.dead = true;
                self.sk.push(FrequentItemsSketch::new(8));
            }
            Err(e) => {
                self.panic("roundtrip", e);
                self.sk.push(FrequentItemsSketch::new(8));
            }
        }
        to
    }
}

/// items chosen so that their home slots (for a map of 2^lg slots) form long clusters,
/// including one that wraps around the end of the array
fn clustered_items(rng: &mut Rng, lg: u8, n: usize) -> Vec<i64> {
    let size = 1u64 << lg;
    let mut items = vec![];
    let mut cand = rng.next() as i64 & 0xffff_ffff;
    let homes = [size - 2, size - 1, 0, 1, size / 2];
    while items.len() < n {
        cand += 1;
        let h = lo_of(cand) % size;
        if homes.contains(&h) || rng.chance(1, 6) {
            items.push(cand);
        }
    }
    items
}

fn stream(s: &mut Sess, rng: &mut Rng, id: usize, n_items: usize, n: usize, shape: u8) {
    for i in 0..n {
        if s.dead { break; }
        let idx = match shape {
            0 => rng.below(n_items as u64) as usize,                       // uniform
            1 => {                                                         // skewed
                let r = rng.f64();
                ((r * r * r) * n_items as f64) as usize
            }
            2 => i % n_items,                                              // all distinct, round robin
            _ => if rng.chance(3, 10) { rng.below(3) as usize } else { rng.below(n_items as u64) as usize },
        };
        let w = match shape {
            2 => 1,
            3 => if idx < 3 { 1000 - rng.below(50) } else { 1 },
            _ => 1 + rng.below(4),
        };
        s.upd(id, idx.min(n_items - 1), w);
        if (i + 1) % 37 == 0 { s.chk(id); }
    }
    s.chk(id);
}

pub fn record(args: &Args) {
    let seed = args.u64("seed", 1);
    let mut rng = Rng::new(seed ^ 0xF1F1);
    let thorough = args.thorough();
    let mut out = Shards::create(&args.str("out", "fi"), args.u64("shards", 8) as usize);
    let reps = if thorough { 6 } else { 1 };
    for _ in 0..reps {
        // single sketches, every stream shape
        for &lgmax in &[3u8, 4, 5, 6, 7] {
            for shape in 0..4u8 {
                let cap = 3 * (1usize << lgmax) / 4;
                let n_items = cap + 1 + rng.below(2 * cap as u64) as usize;
                let a = Alpha { items: clustered_items(&mut rng, lgmax, n_items) };
                let mut s = Sess::new(&mut out, "fi-stream", a);
                let id = s.new_sketch(lgmax);
                stream(&mut s, &mut rng, id, n_items, (6 * n_items).min(if thorough { 900 } else { 500 }), shape);
                let r = s.rt(id);
                stream(&mut s, &mut rng, r, n_items, 40, 0);
                s.reset(id);
                s.chk(id);
                let e = s.rt(id);
                s.chk(e);
            }
        }
        // Appendix B: all-equal counts make the purge remove every counter, then merge / serialize
        for &lgmax in &[3u8, 4, 5] {
            let cap = 3 * (1usize << lgmax) / 4;
            let a = Alpha { items: clustered_items(&mut rng, lgmax, 3 * cap) };
            let mut s = Sess::new(&mut out, "fi-purge-to-empty", a);
            let x = s.new_sketch(lgmax);
            for i in 0..=cap { s.upd(x, i, 1); }
            s.chk(x);
            let y = s.new_sketch(lgmax);
            for i in 0..4 { s.upd(y, cap + 1 + i, 5); }
            s.merge(y, x);
            s.chk(y);
            let z = s.rt(x);
            s.chk(z);
            s.merge(z, y);
            s.chk(z);
            let w = s.new_sketch(lgmax);
            s.merge(w, x);
            s.merge(w, x);
            s.chk(w);
            // equal counts 2,2,...,2,3
            let v = s.new_sketch(lgmax);
            for i in 0..=cap { s.upd(v, i, if i == cap { 3 } else { 2 }); }
            s.chk(v);
            s.merge(v, x);
            s.chk(v);
        }
        // merge trees of 2..5 sketches of equal and different sizes, round trips at nodes
        for t in 0..(if thorough { 10 } else { 6 }) {
            let lgs: Vec<u8> = (0..rng.range(2, 5)).map(|_| if t % 2 == 0 { 4 } else { *rng.pick(&[3u8, 4, 5, 6]) }).collect();
            let n_items = 40 + rng.below(40) as usize;
            let a = Alpha { items: clustered_items(&mut rng, 5, n_items) };
            let mut s = Sess::new(&mut out, "fi-merge-tree", a);
            let mut ids = vec![];
            for &lg in &lgs {
                let id = s.new_sketch(lg);
                let shape = rng.below(4) as u8;
                let len = 60 + rng.below(120) as usize;
                stream(&mut s, &mut rng, id, n_items, len, shape);
                ids.push(id);
            }
            while ids.len() > 1 && !s.dead {
                let b = ids.pop().unwrap();
                let i = rng.below(ids.len() as u64) as usize;
                let src = if rng.chance(1, 3) { s.rt(b) } else { b };
                s.merge(ids[i], src);
                s.chk(ids[i]);
            }
            let last = ids[0];
            let r = s.rt(last);
            stream(&mut s, &mut rng, r, n_items, 30, 1);
        }
        // one large map (purge sample = first 1024 active counters in slot order)
        if thorough {
            let a = Alpha { items: (0..4000).map(|i| i * 7 + 1).collect() };
            let mut s = Sess::new(&mut out, "fi-large", a);
            let id = s.new_sketch(11);
            for _ in 0..6000usize {
                let idx = if rng.chance(1, 4) { rng.below(20) as usize } else { rng.below(4000) as usize };
                s.upd(id, idx, 1 + rng.below(3));
                if s.dead { break; }
            }
            s.chk(id);
        }
    }
    if let Some(path) = args.get("in") {
        replay_gen(&mut out, path);
    }
    let (runs, events) = out.finish();
    println!("{}", json!({"runs":runs,"events":events}));
}

/// TLC-generated behaviours: {"lgmax":3,"ops":[["u",itemIndex,w],["m"],["r"]]} over a fixed alphabet
pub fn replay_gen(out: &mut Shards, path: &str) {
    let text = std::fs::read_to_string(path).expect("behaviours file");
    for line in text.lines() {
        let b: Value = serde_json::from_str(line).expect("behaviour");
        let lgmax = b["lgmax"].as_u64().unwrap() as u8;
        // items whose hash low 4 bits are the ones the specification chose
        let items: Vec<i64> = b["lows"].as_array().unwrap().iter().enumerate().map(|(i, v)| {
            let want = v.as_u64().unwrap();
            let mut c = 1000 * (i as i64 + 1);
            while lo_of(c) % 16 != want { c += 1; }
            c
        }).collect();
        let a = Alpha { items };
        let mut s = Sess::new(out, "fi-tlc-behaviour", a);
        let x = s.new_sketch(lgmax);
        let y = s.new_sketch(lgmax);
        for op in b["ops"].as_array().unwrap() {
            match op[0].as_str().unwrap() {
                "u" => s.upd(x, op[1].as_u64().unwrap() as usize - 1, op[2].as_u64().unwrap()),
                "v" => s.upd(y, op[1].as_u64().unwrap() as usize - 1, op[2].as_u64().unwrap()),
                "m" => s.merge(x, y),
                _ => s.reset(y),
            }
        }
        s.chk(x);
        s.chk(y);
    }
}
