//! C17: bulk scenarios at the documented configuration extremes (every step a valid public operation);
//! C18: size checkpoints of long streams.  Events for Trace_Bulk.tla.
use datasketches::bloom::BloomFilterBuilder;
use datasketches::common::{NumStdDev, ResizeFactor};
use datasketches::countmin::CountMinSketch;
use datasketches::cpc::{CpcSketch, CpcUnion, CpcWrapper};
use datasketches::frequencies::{ErrorType, FrequentItemsSketch};
use datasketches::hll::{HllSketch, HllType, HllUnion};
use datasketches::tdigest::TDigestMut;
use datasketches::theta::{CompactThetaSketch, ThetaSketch};
use serde_json::json;

use crate::fam_hll::{pack, ty};
use crate::util::*;

fn bulk(out: &mut Shards, what: &str, f: impl FnOnce() + std::panic::UnwindSafe) {
    out.next_run("extremes");
    match catch(f) {
        Ok(()) => out.ev(json!({"op":"Bulk","what":what,"ok":true})),
        Err(e) => out.ev(json!({"op":"Panic","in":what,"key":e.split(": ").next().unwrap_or(""),"msg":e})),
    }
}

fn hll_all_queries(sk: &HllSketch) {
    for s in [NumStdDev::One, NumStdDev::Two, NumStdDev::Three] {
        let (lb, ub) = (sk.lower_bound(s), sk.upper_bound(s));
        assert!(lb.is_finite() && ub.is_finite());
    }
    let b = sk.serialize();
    let back = HllSketch::deserialize(&b).expect("own image");
    assert_eq!(back.serialize().len(), b.len());
}

fn hll_extreme(lgk: u8, t: u8, n_public: u64, seed: u64) {
    let mut rng = Rng::new(seed);
    let mut sk = HllSketch::new(lgk, ty(t));
    for _ in 0..n_public {
        sk.update(rng.next());
    }
    hll_all_queries(&sk);
    // crafted: every register to 1, exceptions, then every register to 2 and 3 (cur_min shifts with a live exception map)
    let k = 1u32 << lgk;
    let mut c = HllSketch::new(lgk, ty(t));
    for s in 0..k {
        c.verif_update_with_coupon(pack(s, 1));
    }
    for j in 0..40u32 {
        c.verif_update_with_coupon(pack((j * 7919) % k, 17 + (j % 40)));
    }
    for level in 2..=3u32 {
        for s in 0..k {
            c.verif_update_with_coupon(pack(s, level));
        }
        hll_all_queries(&c);
    }
    c.verif_update_with_coupon(pack(3, 63));
    hll_all_queries(&c);
    let mut u = HllUnion::new(lgk);
    u.update(&sk);
    u.update(&c);
    for tt in [HllType::Hll4, HllType::Hll6, HllType::Hll8] {
        hll_all_queries(&u.to_sketch(tt));
    }
    let mut small = HllUnion::new(lgk.min(12).max(4));
    small.update(&c);
    small.update(&sk);
    hll_all_queries(&small.to_sketch(HllType::Hll4));
}

/// An out-of-order sketch (a union result) answers from the composite estimator: its raw estimate is taken
/// through every interval of the interpolation table, the last one and the linear extrapolation beyond it
/// included (the table ends near 10 k), with a query after every update.
fn hll_ooo_sweep(lgk: u8, t: u8, seed: u64) {
    let k = 1u64 << lgk;
    let mut rng = Rng::new(seed ^ 0x00F0 ^ ((lgk as u64) << 8) ^ t as u64);
    let mut a = HllSketch::new(lgk, ty(t));
    for _ in 0..8 * k {
        a.update(rng.next());
    }
    let mut u = HllUnion::new(lgk);
    u.update(&a);
    let mut r = u.to_sketch(ty(t));
    for i in 0..6 * k {
        r.update(rng.next());
        let e = r.estimate();
        assert!(e.is_finite() && e > 0.0);
        if i % 8 == 0 {
            let (lb, ub) = (r.lower_bound(NumStdDev::Two), r.upper_bound(NumStdDev::Two));
            assert!(lb <= e && e <= ub);
        }
    }
    // and the union gadget itself queried through the same range
    let mut g = HllUnion::new(lgk);
    g.update(&a);
    for i in 0..6 * k {
        let mut one = HllSketch::new(lgk, ty(t));
        one.update(rng.next());
        g.update(&one);
        if i % 4 == 0 || lgk <= 8 {
            let e = g.estimate();
            assert!(e.is_finite() && e > 0.0);
        }
    }
}

fn cpc_queries(sk: &CpcSketch) {
    assert!(sk.validate());
    for s in [NumStdDev::One, NumStdDev::Two, NumStdDev::Three] {
        assert!(sk.lower_bound(s) <= sk.estimate() && sk.estimate() <= sk.upper_bound(s));
    }
    let b = sk.serialize();
    let back = CpcSketch::deserialize(&b).expect("own image");
    assert_eq!(back.num_coupons(), sk.num_coupons());
    assert!(back.validate());
    let w = CpcWrapper::new(&b).expect("wrapper");
    assert_eq!(w.estimate().to_bits(), back.estimate().to_bits());
}

fn cpc_extreme(lgk: u8, n: u64, seed: u64) {
    let mut rng = Rng::new(seed);
    let mut sk = CpcSketch::new(lgk);
    let mut i = 0u64;
    let step = (n / 6).max(1);
    while i < n {
        sk.update(rng.next());
        i += 1;
        if i % step == 0 {
            cpc_queries(&sk);
        }
    }
    cpc_queries(&sk);
    let mut u = CpcUnion::new(lgk);
    u.update(&sk);
    let mut other = CpcSketch::new(lgk.min(12));
    for _ in 0..5000 {
        other.update(rng.next());
    }
    u.update(&other);
    cpc_queries(&u.to_sketch());
}

/// Every configuration in the documented range, small and medium fill: estimators and bounds index tables by
/// lg_k (HIP / ICON error constants, coupon interpolation, harmonic numbers), so each lg_k is its own case.
fn every_lgk(seed: u64) {
    let mut rng = Rng::new(seed ^ 0xE1);
    for lgk in 4u8..=21 {
        // CPC: streamed (HIP) and merged (ICON), sparse and dense for the smaller ones
        for n in [3u64, 40, (1u64 << lgk.min(13)) * 3] {
            let mut sk = CpcSketch::new(lgk);
            for _ in 0..n {
                sk.update(rng.next());
            }
            cpc_queries(&sk);
            let mut u = CpcUnion::new(lgk);
            u.update(&sk);
            let r = u.to_sketch();
            cpc_queries(&r);
            let w = datasketches::cpc::CpcWrapper::new(&r.serialize()).expect("own image");
            for s in [NumStdDev::One, NumStdDev::Two, NumStdDev::Three] {
                assert!(w.lower_bound(s) <= w.estimate() && w.estimate() <= w.upper_bound(s));
            }
            let back = CpcSketch::deserialize(&r.serialize()).expect("own image");
            cpc_queries(&back);
        }
        // HLL: every type in list, set and register mode, and union results
        for t in [4u8, 6, 8] {
            for n in [3u64, 30, (1u64 << lgk.min(13)) * 2] {
                let mut sk = HllSketch::new(lgk, ty(t));
                for _ in 0..n {
                    sk.update(rng.next());
                }
                hll_all_queries(&sk);
                let mut u = HllUnion::new(lgk);
                u.update(&sk);
                hll_all_queries(&u.to_sketch(ty(t)));
            }
        }
    }
    for lgk in 5u8..=26 {
        let mut sk = ThetaSketch::builder().lg_k(lgk).build();
        for _ in 0..(if lgk <= 12 { 3u64 << lgk } else { 5000 }) {
            sk.update(rng.next());
        }
        for s in [NumStdDev::One, NumStdDev::Two, NumStdDev::Three] {
            assert!(sk.lower_bound(s) <= sk.estimate() && sk.estimate() <= sk.upper_bound(s));
        }
        let c = sk.compact(true);
        let _ = (c.serialize(), c.serialize_compressed(), c.estimate());
    }
}

fn cpc_walk_small(lgk: u8, seed: u64) {
    // crafted coupons up to window offset 56 with a serialization at every offset
    let mut rng = Rng::new(seed);
    let k = 1u32 << lgk;
    let mut sk = CpcSketch::new(lgk);
    let mut last_off = 0;
    for col in 0..64u32 {
        for row in 0..k {
            if 8 * (sk.num_coupons() as u64 + 3) >= (27 + 8 * 56) * k as u64 {
                cpc_queries(&sk);
                return;
            }
            if rng.chance(1, 10) {
                continue;
            }
            sk.verif_row_col_update((row << 6) | col);
            let off = sk.verif_state().window_offset;
            if off != last_off {
                last_off = off;
                cpc_queries(&sk);
            }
        }
    }
    cpc_queries(&sk);
}

fn theta_extreme(lgk: u8, n: u64, seed: u64) {
    let mut rng = Rng::new(seed);
    for rf in [ResizeFactor::X1, ResizeFactor::X2, ResizeFactor::X4, ResizeFactor::X8] {
        for p in [1.0f32, 0.3] {
            let mut sk = ThetaSketch::builder().lg_k(lgk).resize_factor(rf).sampling_probability(p).build();
            let _ = sk.compact(true).serialize();
            for i in 0..n {
                sk.update(rng.next());
                if i == n / 2 {
                    sk.trim();
                }
            }
            for s in [NumStdDev::One, NumStdDev::Two, NumStdDev::Three] {
                assert!(sk.lower_bound(s) <= sk.estimate() && sk.estimate() <= sk.upper_bound(s));
            }
            for ord in [true, false] {
                let c = sk.compact(ord);
                for img in [c.serialize(), c.serialize_compressed()] {
                    let b = CompactThetaSketch::deserialize(&img).expect("own image");
                    assert_eq!(b.num_retained(), c.num_retained());
                    let _ = (b.lower_bound(NumStdDev::Two), b.upper_bound(NumStdDev::Two));
                }
            }
            sk.trim();
            sk.reset();
            sk.update(1u64);
            let _ = sk.compact(false).serialize_compressed();
        }
    }
}

fn td_extreme(k: u16, n: u64, seed: u64) {
    let mut rng = Rng::new(seed);
    let mut td = TDigestMut::new(k);
    assert!(td.cdf(&[]).is_none());
    for i in 0..n {
        let v = match i % 4 {
            0 => rng.f64(),
            1 => -(rng.f64() * 1e12),
            2 => (rng.below(10)) as f64,
            _ => 1e-200 * rng.f64(),
        };
        td.update(v);
    }
    td.update(f64::NAN);
    td.update(f64::INFINITY);
    let _ = td.cdf(&[]).unwrap();
    let _ = td.pmf(&[]).unwrap();
    let _ = td.cdf(&[0.5]).unwrap();
    let _ = td.pmf(&[-1.0, 0.0, 1.0]).unwrap();
    for q in [0.0, 0.001, 0.5, 0.999, 1.0] {
        assert!(td.quantile(q).unwrap().is_finite());
    }
    for v in [-1e13, 0.0, 0.5, 9.0, 1e13] {
        let r = td.rank(v).unwrap();
        assert!((0.0..=1.0).contains(&r));
    }
    let mut other = TDigestMut::new(k);
    for _ in 0..1000 {
        other.update(rng.f64() * 100.0);
    }
    td.merge(&other);
    let b = td.serialize();
    let back = TDigestMut::deserialize(&b, false).expect("own image");
    assert_eq!(back.total_weight(), td.total_weight());
    let f = td.freeze();
    let _ = f.rank(0.5);
    let _ = f.cdf(&[]);
    let mut u = f.unfreeze();
    u.update(3.0);
    let _ = u.quantile(0.5);
}

fn fi_extreme(seed: u64) {
    let mut rng = Rng::new(seed);
    let mut a: FrequentItemsSketch<i64> = FrequentItemsSketch::new(8);
    let mut b: FrequentItemsSketch<i64> = FrequentItemsSketch::new(8);
    for i in 0..100_000u64 {
        let x = (rng.f64().powi(3) * 1000.0) as i64;
        a.update_with_count(x, 1 + rng.below(3));
        if i % 7 == 0 {
            b.update(i as i64); // all distinct, equal counts
        }
        if i % 20_000 == 0 {
            a.merge(&b);
            let _ = a.frequent_items(ErrorType::NoFalsePositives);
            let _ = a.frequent_items(ErrorType::NoFalseNegatives);
            let img = a.serialize();
            let back = FrequentItemsSketch::<i64>::deserialize(&img).expect("own image");
            assert_eq!(back.total_weight(), a.total_weight());
        }
    }
    let mut s: FrequentItemsSketch<String> = FrequentItemsSketch::new(8);
    for i in 0..5000 {
        s.update(format!("k{}", i % 37));
    }
    let img = s.serialize();
    let _ = FrequentItemsSketch::<String>::deserialize(&img).expect("own image");
    let e: FrequentItemsSketch<u64> = FrequentItemsSketch::new(8);
    let _ = FrequentItemsSketch::<u64>::deserialize(&e.serialize()).expect("own empty image");
}

fn bloom_extreme(seed: u64) {
    let mut rng = Rng::new(seed);
    let mut f = BloomFilterBuilder::with_size(1, 1).build();
    let mut g = BloomFilterBuilder::with_size(1, 1).build();
    for i in 0..2000u64 {
        f.insert(rng.next());
        let _ = g.contains_and_insert(&i);
        let _ = f.contains(&i);
    }
    f.union(&g);
    f.intersect(&g);
    f.invert();
    let _ = (f.load_factor(), f.estimated_fpp(), f.bits_used());
    let img = f.serialize();
    let _ = datasketches::bloom::BloomFilter::deserialize(&img).expect("own image");
    f.reset();
    let _ = f.serialize();
    let h = BloomFilterBuilder::with_accuracy(1, 1.0).build();
    let _ = h.serialize();
    let mut big = BloomFilterBuilder::with_size(1 << 16, 16).seed(u64::MAX).build();
    for i in 0..10_000u64 {
        big.insert(i);
    }
    big.invert();
    let _ = big.serialize();
}

macro_rules! cm_extreme {
    ($t:ty, $max:expr) => {{
        let mut a = CountMinSketch::<$t>::new(1, 3);
        let mut b = CountMinSketch::<$t>::new(1, 3);
        let budget: u64 = ($max as u64).min(100_000);
        let mut used = 0u64;
        let mut i = 0u64;
        while used + 2 <= budget / 2 {
            a.update(i);
            b.update_with_weight(i + 1, 1 as $t);
            used += 1;
            i += 1;
        }
        a.merge(&b);
        for x in 0..10u64 {
            let _ = (a.estimate(x), a.lower_bound(x), a.upper_bound(x));
        }
        let img = a.serialize();
        let _ = CountMinSketch::<$t>::deserialize(&img).expect("own image");
    }};
}

fn cm_extreme_all() {
    cm_extreme!(u8, u8::MAX);
    cm_extreme!(u16, u16::MAX);
    cm_extreme!(u32, u32::MAX);
    cm_extreme!(u64, u32::MAX);
    cm_extreme!(i8, i8::MAX);
    cm_extreme!(i16, i16::MAX);
    cm_extreme!(i32, i32::MAX);
    cm_extreme!(i64, i32::MAX);
    let mut h = CountMinSketch::<u64>::new(1, 3);
    h.update_with_weight("x", 1000);
    h.halve();
    h.decay(0.5);
    h.decay(1.0);
    let _ = CountMinSketch::<u64>::suggest_num_buckets(0.01);
    let _ = CountMinSketch::<u64>::suggest_num_hashes(1.0);
    let _ = CountMinSketch::<u64>::suggest_num_hashes(0.0);
}

/// `vh ext-record`: C17 scenarios
pub fn record(args: &Args) {
    let seed = args.u64("seed", 1);
    let thorough = args.thorough();
    let mut out = Shards::create(&args.str("out", "ext"), args.u64("shards", 2) as usize);
    for t in [4u8, 6, 8] {
        bulk(&mut out, &format!("hll lg_k=4 type={t}"), move || hll_extreme(4, t, 5000, seed));
        bulk(&mut out, &format!("hll lg_k=21 type={t}"), move || hll_extreme(21, t, if thorough { 8_000_000 } else { 1_000_000 }, seed + 1));
    }
    bulk(&mut out, "every lg_k", move || every_lgk(seed));
    bulk(&mut out, "cpc lg_k=4 walk", move || cpc_walk_small(4, seed));
    bulk(&mut out, "cpc lg_k=5 walk", move || cpc_walk_small(5, seed + 9));
    bulk(&mut out, "cpc lg_k=4", move || cpc_extreme(4, 20_000, seed));
    bulk(&mut out, "cpc lg_k=21", move || cpc_extreme(21, if thorough { 20_000_000 } else { 9_000_000 }, seed));
    if thorough {
        bulk(&mut out, "cpc lg_k=22", move || cpc_extreme(22, 18_000_000, seed));
        bulk(&mut out, "cpc lg_k=26", move || cpc_extreme(26, 8_000_000, seed));
    } else {
        bulk(&mut out, "cpc lg_k=26 sparse", move || cpc_extreme(26, 200_000, seed));
    }
    for &lgk in &[4u8, 6, 8, 10, 12] {
        for t in [4u8, 6, 8] {
            if !thorough && lgk == 12 && t != 8 {
                continue;
            }
            bulk(&mut out, &format!("hll out-of-order sweep lg_k={lgk} type={t}"), move || hll_ooo_sweep(lgk, t, seed));
        }
    }
    bulk(&mut out, "theta lg_k=5", move || theta_extreme(5, 50_000, seed));
    bulk(&mut out, "theta lg_k=26", move || theta_extreme(26, if thorough { 400_000 } else { 60_000 }, seed));
    bulk(&mut out, "tdigest k=10", move || td_extreme(10, 200_000, seed));
    bulk(&mut out, "tdigest k=65535", move || td_extreme(65535, if thorough { 2_000_000 } else { 600_000 }, seed));
    bulk(&mut out, "tdigest k=32768", move || td_extreme(32768, 300_000, seed));
    bulk(&mut out, "frequent items map 8", move || fi_extreme(seed));
    bulk(&mut out, "bloom 1 bit", move || bloom_extreme(seed));
    bulk(&mut out, "count-min 1x3 all types", cm_extreme_all);
    let (runs, events) = out.finish();
    println!("{}", json!({"runs":runs,"events":events}));
}

/// `vh size-record`: C18 checkpoints after every power-of-two prefix
pub fn record_sizes(args: &Args) {
    let seed = args.u64("seed", 1);
    let thorough = args.thorough();
    let mut rng = Rng::new(seed ^ 0x5128);
    let mut out = Shards::create(&args.str("out", "size"), args.u64("shards", 4) as usize);
    let max_n: u64 = if thorough { 1 << 22 } else { 1 << 18 };
    // stream shapes: 0 distinct, 1 repeated (small domain), 2 adversarial order (sorted ramp / long runs)
    let item = |shape: u8, i: u64, rng: &mut Rng| -> u64 {
        match shape {
            0 => rng.next(),
            1 => rng.below(5000),
            _ => i / 3,
        }
    };
    // HLL
    for &lgk in &[4u8, 7, 8, 10, 12, 14] {
        for &t in &[4u8, 6, 8] {
            for shape in 0..3u8 {
                if !thorough && (lgk == 14 || (shape == 2 && t != 4)) {
                    continue;
                }
                out.next_run("size-hll");
                let mut sk = HllSketch::new(lgk, ty(t));
                let r = catch(std::panic::AssertUnwindSafe(|| {
                    let mut evs = vec![];
                    for i in 0..max_n {
                        sk.update(item(shape, i, &mut rng));
                        if (i + 1).is_power_of_two() {
                            let st = sk.verif_state();
                            let mode = ["list", "set", "arr"][st.mode as usize];
                            let count = if st.mode == 0 { st.coupons.iter().filter(|&&c| c != 0).count() } else { st.count };
                            evs.push(json!({"op":"Size","fam":"hll","lgk":lgk,"type":t,"mode":mode,"count":count,"naux":st.aux.len(),
                                "len":sk.serialize().len(),"n":i + 1}));
                        }
                    }
                    evs
                }));
                match r {
                    Ok(evs) => evs.into_iter().for_each(|e| out.ev(e)),
                    Err(e) => out.ev(json!({"op":"Panic","in":"hll stream","key":e.split(": ").next().unwrap_or(""),"msg":e})),
                }
            }
        }
    }
    // HLL sketches that start from a decoded coupon-set image: every lg_k / table size the decoder accepts
    // (the bound is the configuration's, whatever the image said about the table)
    {
        let mut base = HllSketch::new(12, ty(8));
        for i in 0..20u64 {
            base.update(i.wrapping_mul(0x9E37_79B9_7F4A_7C15));
        }
        let base_img = base.serialize();
        for &lgk in &[4u8, 6, 7, 8, 9, 10, 12] {
            for lgarr in 3u8..=lgk.max(3) + 1 {
                let mut img = base_img.clone();
                img[3] = lgk;
                img[4] = lgarr;
                let Ok(Ok(mut sk)) = catch(std::panic::AssertUnwindSafe(|| HllSketch::deserialize(&img))) else { continue };
                out.next_run("size-hll-from-image");
                let n_max = if thorough { 1u64 << 18 } else { 1 << 15 };
                let r = catch(std::panic::AssertUnwindSafe(|| {
                    let mut evs = vec![];
                    for i in 0..n_max {
                        sk.update(rng.next());
                        if (i + 1).is_power_of_two() {
                            let st = sk.verif_state();
                            let mode = ["list", "set", "arr"][st.mode as usize];
                            let count = if st.mode == 0 { st.coupons.iter().filter(|&&c| c != 0).count() } else { st.count };
                            evs.push(json!({"op":"Size","fam":"hll","lgk":lgk,"type":8,"mode":mode,"count":count,"naux":st.aux.len(),
                                "len":sk.serialize().len(),"n":i + 1,"lgarr0":lgarr}));
                        }
                    }
                    evs
                }));
                match r {
                    Ok(evs) => evs.into_iter().for_each(|e| out.ev(e)),
                    Err(e) => out.ev(json!({"op":"Panic","in":"hll stream from image","key":e.split(": ").next().unwrap_or(""),"msg":e})),
                }
            }
        }
    }
    // theta
    for &lgk in &[5u8, 8, 12] {
        for shape in 0..3u8 {
            out.next_run("size-theta");
            let mut sk = ThetaSketch::builder().lg_k(lgk).build();
            let mut evs = vec![];
            for i in 0..max_n {
                sk.update(item(shape, i, &mut rng));
                if (i + 1).is_power_of_two() {
                    evs.push(json!({"op":"Size","fam":"theta","lgk":lgk,"retained":sk.num_retained(),"trimmed":false,"n":i + 1}));
                    if (i + 1) % 4 == 0 && rng.chance(1, 3) {
                        sk.trim();
                        evs.push(json!({"op":"Size","fam":"theta","lgk":lgk,"retained":sk.num_retained(),"trimmed":true,"n":i + 1}));
                    }
                }
            }
            evs.into_iter().for_each(|e| out.ev(e));
        }
    }
    // CPC: the 0.1% clause is counted over all checkpoints of a trace file; every CPC checkpoint goes
    // into one run (one file)
    out.next_run("size-cpc");
    for &lgk in &[4u8, 8, 10, 11, 12] {
        for shape in 0..3u8 {
            for rep in 0..(if thorough { 6 } else { 2 }) {
                let mut sk = CpcSketch::new(lgk);
                let mut evs = vec![];
                let limit = max_n.min(1 << 20);
                let offset = rng.next();
                for i in 0..limit {
                    sk.update(item(shape, i, &mut rng).wrapping_add(offset * (rep + 1)));
                    if (i + 1).is_power_of_two() && i + 1 >= 64 {
                        evs.push(json!({"op":"Size","fam":"cpc","lgk":lgk,"len":sk.serialize().len(),
                            "maxlen":CpcSketch::max_serialized_bytes(lgk),"n":i + 1,"c":sk.num_coupons()}));
                    }
                }
                evs.into_iter().for_each(|e| out.ev(e));
            }
        }
    }
    // CPC, repeated streams over domains whose distinct count sweeps the compression phases
    // (domain / K from 1 to 15 in steps of 0.5): the image size depends on the phase, not on the prefix length
    for &lgk in &[10u8, 11, 12] {
        let k = 1u64 << lgk;
        for j in 0..(if thorough { 56 } else { 29 }) {
            // domains from 1.0 K upwards (C / K from about 0.8)
            let domain = k + k * j / (if thorough { 4 } else { 2 });
            let base = rng.next();
            let mut sk = CpcSketch::new(lgk);
            let mut evs = vec![];
            let limit = 1u64 << 18;
            for i in 0..limit {
                sk.update(base.wrapping_add(rng.below(domain)));
                if (i + 1).is_power_of_two() && i + 1 >= (1 << 16) {
                    evs.push(json!({"op":"Size","fam":"cpc","lgk":lgk,"len":sk.serialize().len(),
                        "maxlen":CpcSketch::max_serialized_bytes(lgk),"n":i + 1,"c":sk.num_coupons()}));
                }
            }
            evs.into_iter().for_each(|e| out.ev(e));
        }
    }
    // HLL union results are no finer than lg_max_k, whatever the inputs and the gadget's mode when they arrive,
    // and have the exact size their own mode and lg_k dictate
    for &maxk in &[8u8, 10] {
        for plan in 0..5u8 {
            out.next_run("size-hll-union");
            let mut u = HllUnion::new(maxk);
            // (lg_k, type, items) of the inputs; 0 items = a single update_value on the union itself
            let inputs: Vec<(u8, u8, u64)> = match plan {
                0 => vec![(maxk, 8, 3), (maxk + 4, 8, 1 << (maxk + 5))],          // list gadget, then a finer dense input
                1 => vec![(maxk, 4, 20), (maxk + 2, 6, 1 << (maxk + 4))],         // set gadget, then a finer dense input
                2 => vec![(maxk + 3, 8, 1 << (maxk + 5)), (maxk, 8, 50)],         // finer dense input first
                3 => vec![(0, 8, 0), (0, 8, 0), (maxk + 1, 4, 1 << (maxk + 3)), (maxk - 2, 8, 1 << maxk)],
                _ => (0..5).map(|_| (maxk - 2 + rng.below(6) as u8, [4u8, 6, 8][rng.below(3) as usize], 1 + rng.below(1 << (maxk + 2)))).collect(),
            };
            for (lgk, t, n) in inputs {
                let r = catch(std::panic::AssertUnwindSafe(|| {
                    if n == 0 {
                        u.update_value(rng.next());
                    } else {
                        let mut s = HllSketch::new(lgk, ty(t));
                        for _ in 0..n {
                            s.update(rng.next());
                        }
                        u.update(&s);
                    }
                    [4u8, 6, 8].iter().map(|&tt| {
                        let res = u.to_sketch(ty(tt));
                        let st = res.verif_state();
                        let mode = ["list", "set", "arr"][st.mode as usize];
                        let count = if st.mode == 0 { st.coupons.iter().filter(|&&c| c != 0).count() } else { st.count };
                        json!({"op":"Size","fam":"hll","lgk":res.lg_config_k(),"type":tt,"mode":mode,"count":count,"naux":st.aux.len(),
                            "len":res.serialize().len(),"n":n,"maxk":maxk})
                    }).collect::<Vec<_>>()
                }));
                match r {
                    Ok(evs) => evs.into_iter().for_each(|e| out.ev(e)),
                    Err(e) => {
                        out.ev(json!({"op":"Panic","in":"hll union","key":e.split(": ").next().unwrap_or(""),"msg":e}));
                        break;
                    }
                }
            }
        }
    }
    // CPC union results are sketches of the union's configuration: lg_k no larger than configured, image
    // within max_serialized_bytes of the configured lg_k, whatever the inputs' lg_k, flavour and order
    for &ulgk in &[4u8, 8, 10] {
        for plan in 0..6u8 {
            let mut u = datasketches::cpc::CpcUnion::new(ulgk);
            let inputs: Vec<(u8, u64)> = match plan {
                0 => vec![(ulgk + 4, 3), (ulgk + 4, 40)],                      // larger sparse first input
                1 => vec![(ulgk + 2, 1 << (ulgk + 3)), (ulgk, 50)],              // larger dense first input
                2 => vec![(ulgk, 10), (ulgk + 6, 20), (ulgk + 1, 1 << (ulgk + 2))],
                3 => vec![(ulgk + 8, 2), (ulgk + 8, 2), (ulgk + 8, 1 << 10)],
                4 => vec![(ulgk.max(5) - 1, 7), (ulgk + 3, 100)],
                _ => (0..6).map(|_| (ulgk + rng.below(7) as u8, 1 + rng.below(1 << (ulgk + 2)))).collect(),
            };
            for (lgk, n) in inputs {
                let lgk = lgk.clamp(4, 20);
                let mut s = CpcSketch::new(lgk);
                for _ in 0..n {
                    s.update(rng.next());
                }
                let r = catch(std::panic::AssertUnwindSafe(|| {
                    u.update(&s);
                    let res = u.to_sketch();
                    (res.lg_k(), res.serialize().len(), res.num_coupons())
                }));
                match r {
                    Ok((rlgk, len, c)) => out.ev(json!({"op":"Size","fam":"cpcu","ulgk":ulgk,"rlgk":rlgk,"len":len,
                        "maxlen":CpcSketch::max_serialized_bytes(ulgk),"n":n,"c":c,"src":lgk})),
                    Err(e) => {
                        out.ev(json!({"op":"Panic","in":"cpc union","key":e.split(": ").next().unwrap_or(""),"msg":e}));
                        break;
                    }
                }
            }
        }
    }
    // frequent items, Bloom, Count-Min, t-digest
    for &lgmax in &[3u8, 6, 10] {
        for shape in 0..3u8 {
            out.next_run("size-fi");
            let mut sk: FrequentItemsSketch<i64> = FrequentItemsSketch::new(1usize << lgmax);
            let mut evs = vec![];
            for i in 0..max_n.min(1 << 20) {
                sk.update(item(shape, i, &mut rng) as i64);
                if (i + 1).is_power_of_two() {
                    evs.push(json!({"op":"Size","fam":"fi","lgmax":lgmax,"active":sk.num_active_items(),"n":i + 1}));
                }
            }
            evs.into_iter().for_each(|e| out.ev(e));
        }
    }
    for &(bits, k) in &[(1u64, 1u16), (1000, 3), (65536, 7)] {
        out.next_run("size-bloom");
        let mut f = BloomFilterBuilder::with_size(bits, k).build();
        let mut evs = vec![];
        for i in 0..max_n.min(1 << 18) {
            f.insert(rng.next());
            if (i + 1).is_power_of_two() {
                evs.push(json!({"op":"Size","fam":"bloom","cap":f.capacity(),"used":f.bits_used(),"len":f.serialize().len(),"n":i + 1}));
            }
        }
        evs.into_iter().for_each(|e| out.ev(e));
    }
    for &(d, w) in &[(1u8, 3u32), (4, 64), (8, 512)] {
        out.next_run("size-cm");
        let mut c = CountMinSketch::<u64>::new(d, w);
        let mut evs = vec![json!({"op":"Size","fam":"cm","d":d,"w":w,"empty":true,"len":c.serialize().len(),"n":0})];
        for i in 0..max_n.min(1 << 18) {
            c.update(rng.next());
            if (i + 1).is_power_of_two() {
                evs.push(json!({"op":"Size","fam":"cm","d":d,"w":w,"empty":false,"len":c.serialize().len(),"n":i + 1}));
            }
        }
        evs.into_iter().for_each(|e| out.ev(e));
    }
    for &k in &[10u16, 100, 500] {
        for shape in 0..3u8 {
            out.next_run("size-td");
            let mut td = TDigestMut::new(k);
            let mut evs = vec![];
            for i in 0..max_n.min(1 << 20) {
                td.update(item(shape, i, &mut rng) as f64 * 0.37);
                if (i + 1).is_power_of_two() && i > 0 {
                    let b = td.serialize();
                    let nc = if b.len() > 32 { (b.len() - 32) / 16 } else { 1 };
                    evs.push(json!({"op":"Size","fam":"td","k":k,"nc":nc,"len":b.len(),"n":i + 1}));
                }
            }
            evs.into_iter().for_each(|e| out.ev(e));
        }
    }
    let (runs, events) = out.finish_with_end();
    println!("{}", json!({"runs":runs,"events":events}));
}
