pub mod refhash;
pub mod util;
pub mod fam_hash;
pub mod fam_hll;
pub mod fam_theta;
pub mod fam_fi;
pub mod fam_cm;
pub mod fam_bloom;
