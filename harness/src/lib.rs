pub mod refhash;
pub mod util;
pub mod fam_hash;
