//! t-digest: drive TDigestMut / TDigest and record traces for Trace_TDigest.tla; replay the
//! digests enumerated by TDigest.tla (MC_TDigest) through deserialize + rank/quantile.
use datasketches::tdigest::TDigestMut;
use serde_json::{Value, json};

use crate::util::*;

/// image in the current double format
pub fn image(k: u16, min: f64, max: f64, cs: &[(f64, u64)], reverse: bool) -> Vec<u8> {
    let total: u64 = cs.iter().map(|c| c.1).sum();
    let mut b = vec![];
    let single = total == 1;
    b.push(if cs.is_empty() || single { 1 } else { 2 });
    b.push(1); // serial version
    b.push(20); // family
    b.extend_from_slice(&k.to_le_bytes());
    let mut flags = 0u8;
    if cs.is_empty() {
        flags |= 1;
    }
    if single {
        flags |= 2;
    }
    if reverse {
        flags |= 4;
    }
    b.push(flags);
    b.extend_from_slice(&0u16.to_le_bytes());
    if cs.is_empty() {
        return b;
    }
    if single {
        b.extend_from_slice(&cs[0].0.to_le_bytes());
        return b;
    }
    b.extend_from_slice(&(cs.len() as u32).to_le_bytes());
    b.extend_from_slice(&0u32.to_le_bytes());
    b.extend_from_slice(&min.to_le_bytes());
    b.extend_from_slice(&max.to_le_bytes());
    for (m, w) in cs {
        b.extend_from_slice(&m.to_le_bytes());
        b.extend_from_slice(&w.to_le_bytes());
    }
    b
}

/// the C++ float flavour of the current format: f32 min/max/means, u32 weights, f32 buffered values
pub fn image_f32(k: u16, min: f64, max: f64, cs: &[(f64, u64)], buffered: &[f64]) -> Vec<u8> {
    let mut b = vec![2, 1, 20];
    b.extend_from_slice(&k.to_le_bytes());
    b.push(0);
    b.extend_from_slice(&0u16.to_le_bytes());
    b.extend_from_slice(&(cs.len() as u32).to_le_bytes());
    b.extend_from_slice(&(buffered.len() as u32).to_le_bytes());
    b.extend_from_slice(&(min as f32).to_le_bytes());
    b.extend_from_slice(&(max as f32).to_le_bytes());
    for (m, w) in cs {
        b.extend_from_slice(&(*m as f32).to_le_bytes());
        b.extend_from_slice(&(*w as u32).to_le_bytes());
    }
    for v in buffered {
        b.extend_from_slice(&(*v as f32).to_le_bytes());
    }
    b
}

/// current double format with buffered values
pub fn image_buf(k: u16, min: f64, max: f64, cs: &[(f64, u64)], buffered: &[f64]) -> Vec<u8> {
    let mut b = image(k, min, max, cs, false);
    b[12..16].copy_from_slice(&(buffered.len() as u32).to_le_bytes());
    for v in buffered {
        b.extend_from_slice(&v.to_le_bytes());
    }
    b
}

/// reference-implementation (Dunning) encodings, big-endian: type 1 = doubles, type 2 = floats
pub fn image_compat(ty: u32, k: u16, min: f64, max: f64, cs: &[(f64, u64)]) -> Vec<u8> {
    let mut b = vec![];
    b.extend_from_slice(&ty.to_be_bytes());
    b.extend_from_slice(&min.to_be_bytes());
    b.extend_from_slice(&max.to_be_bytes());
    if ty == 1 {
        b.extend_from_slice(&(k as f64).to_be_bytes());
        b.extend_from_slice(&(cs.len() as u32).to_be_bytes());
        for (m, w) in cs {
            b.extend_from_slice(&(*w as f64).to_be_bytes());
            b.extend_from_slice(&m.to_be_bytes());
        }
    } else {
        b.extend_from_slice(&(k as f32).to_be_bytes());
        b.extend_from_slice(&0u32.to_be_bytes());
        b.extend_from_slice(&(cs.len() as u16).to_be_bytes());
        for (m, w) in cs {
            b.extend_from_slice(&(*w as f32).to_be_bytes());
            b.extend_from_slice(&(*m as f32).to_be_bytes());
        }
    }
    b
}

/// centroid list decoded from an image in the current double format
pub fn decode(b: &[u8]) -> (f64, f64, Vec<(f64, u64)>) {
    let flags = b[5];
    if flags & 1 != 0 {
        return (f64::NAN, f64::NAN, vec![]);
    }
    if flags & 2 != 0 {
        let v = f64::from_le_bytes(b[8..16].try_into().unwrap());
        return (v, v, vec![(v, 1)]);
    }
    let n = u32::from_le_bytes(b[8..12].try_into().unwrap()) as usize;
    let min = f64::from_le_bytes(b[16..24].try_into().unwrap());
    let max = f64::from_le_bytes(b[24..32].try_into().unwrap());
    let cs = (0..n)
        .map(|i| {
            let o = 32 + 16 * i;
            (f64::from_le_bytes(b[o..o + 8].try_into().unwrap()), u64::from_le_bytes(b[o + 8..o + 16].try_into().unwrap()))
        })
        .collect();
    (min, max, cs)
}

fn rat(v: &Value) -> Option<f64> {
    let n = v[0].as_i64().unwrap() as f64;
    let d = v[1].as_i64().unwrap() as f64;
    if d == 0.0 { None } else { Some(n / d) }
}

fn close(a: f64, b: f64) -> bool {
    (a - b).abs() <= 1e-9 * (1.0 + a.abs().max(b.abs()))
}

/// single-value images (flags 2 / 6, double and float): value, weight and merge direction come back, and
/// the library writes the same image again
fn single_value_images(out: &mut Shards) {
    out.next_run("td-single-images");
    for (i, &v) in [1.5f64, -0.0, 1e30, -3.25, 0.1].iter().enumerate() {
        for rev in [false, true] {
            for float in [false, true] {
                let k = [10u16, 100, 200][i % 3];
                let mut img = vec![1u8, 1, 20];
                img.extend_from_slice(&k.to_le_bytes());
                img.push(2 | if rev { 4 } else { 0 });
                img.extend_from_slice(&0u16.to_le_bytes());
                let vv = if float { v as f32 as f64 } else { v };
                if float {
                    img.extend_from_slice(&(v as f32).to_le_bytes());
                } else {
                    img.extend_from_slice(&v.to_le_bytes());
                }
                let mut bad: Vec<Value> = vec![];
                let r = catch(std::panic::AssertUnwindSafe(|| TDigestMut::deserialize(&img, float)));
                let loaded = matches!(r, Ok(Ok(_)));
                match r {
                    Ok(Ok(mut td)) => {
                        let back = td.serialize();
                        let mut want = img.clone();
                        if float {
                            want.truncate(8);
                            want.extend_from_slice(&vv.to_le_bytes()); // written back as a double
                        }
                        if back != want {
                            bad.push(json!({"what":"re-serialized image","got":back,"want":want}));
                        }
                        if td.total_weight() != 1 || td.min_value() != Some(vv) || td.max_value() != Some(vv) || td.quantile(0.5).map(f64::to_bits) != Some(vv.to_bits()) {
                            bad.push(json!({"what":"state","got":format!("{:?} {:?}", td.min_value(), td.max_value())}));
                        }
                    }
                    Ok(Err(e)) => bad.push(json!({"what":"rejected","err":format!("{e:?}")})),
                    Err(e) => bad.push(json!({"what":"panic","err":e})),
                }
                out.ev(json!({"op":"DLoad","variant":format!("single-{}-{}", if float { "float" } else { "double" }, if rev { "rev" } else { "fwd" }),
                    "spec":{"min":vv.to_string(),"max":vv.to_string(),"cs":[]},"k":k,"loaded":loaded,"bad":bad,"nq":1}));
            }
        }
    }
}

/// `vh td-replay --in digests.json --out prefix --shards N`: every digest of the specification's
/// enumeration is loaded from an image and every grid answer compared with the exact rational
pub fn replay(args: &Args) {
    let mut out = Shards::create(&args.str("out", "tdl"), args.u64("shards", 4) as usize);
    let text = std::fs::read_to_string(args.get("in").expect("--in")).expect("digests file");
    single_value_images(&mut out);
    let mut n = 0u64;
    for (li, line) in text.lines().enumerate() {
        let d: Value = serde_json::from_str(line).expect("digest");
        if li % 200 == 0 {
            out.next_run("td-spec-digests");
        }
        let min = d["min"].as_f64().unwrap();
        let max = d["max"].as_f64().unwrap();
        let cs: Vec<(f64, u64)> = d["cs"].as_array().unwrap().iter().map(|c| (c[0].as_f64().unwrap(), c[1].as_u64().unwrap())).collect();
        let k = [10u16, 100, 200][li % 3];
        let img = image(k, min, max, &cs, li % 2 == 1);
        let mut bad = vec![];
        let mut nq = 0;
        let loaded = catch(std::panic::AssertUnwindSafe(|| TDigestMut::deserialize(&img, false)));
        let ok = matches!(loaded, Ok(Ok(_)));
        if let Ok(Ok(mut td)) = loaded {
            let r = catch(std::panic::AssertUnwindSafe(|| {
                let mut bad = vec![];
                let mut nq = 0;
                // the digest must hold exactly the encoded state
                let back = td.serialize();
                let (bmin, bmax, bcs) = decode(&back);
                let total: u64 = cs.iter().map(|c| c.1).sum();
                if td.total_weight() != total || (total > 1 && (bmin != min || bmax != max || bcs != cs)) {
                    bad.push(json!({"what":"state","got":format!("{bmin} {bmax} {bcs:?}")}));
                }
                // merged into another digest, the decoded digest contributes its true extremes and weight
                {
                    let mid = min / 2.0 + max / 2.0;
                    let mut acc = TDigestMut::new(k);
                    acc.update(mid);
                    acc.merge(&td);
                    if acc.min_value() != Some(min.min(mid)) || acc.max_value() != Some(max.max(mid)) || acc.total_weight() != total + 1 {
                        bad.push(json!({"what":"extremes after merge","got":format!("{:?} {:?} {}", acc.min_value(), acc.max_value(), acc.total_weight())}));
                    }
                    let mut acc2 = TDigestMut::new(k);
                    acc2.merge(&td);
                    if acc2.min_value() != Some(min) || acc2.max_value() != Some(max) {
                        bad.push(json!({"what":"extremes after merge into an empty digest","got":format!("{:?} {:?}", acc2.min_value(), acc2.max_value())}));
                    }
                }
                // the merge direction is part of the state (it decides how the next compression clusters)
                if (back[5] & 4 != 0) != (li % 2 == 1) {
                    bad.push(json!({"what":"reverse-merge flag","got":back[5]}));
                }
                for (i, v) in d["vs"].as_array().unwrap().iter().enumerate() {
                    let x = rat(v).unwrap();
                    let exp = rat(&d["rk"][i]).unwrap();
                    let got = td.rank(x).unwrap();
                    nq += 1;
                    if !close(got, exp) {
                        bad.push(json!({"what":"rank","v":x,"exp":d["rk"][i],"got":format!("{got:?}")}));
                    }
                }
                for (i, q) in d["qs"].as_array().unwrap().iter().enumerate() {
                    let x = rat(q).unwrap();
                    let got = td.quantile(x).unwrap();
                    nq += 1;
                    match rat(&d["qt"][i]) {
                        Some(exp) => {
                            if !close(got, exp) {
                                bad.push(json!({"what":"quantile","q":x,"exp":d["qt"][i],"got":format!("{got:?}")}));
                            }
                        }
                        None => {
                            // the specification leaves the value open (0/0 in the formula): range only
                            if !(got >= min && got <= max) {
                                bad.push(json!({"what":"quantile-range","q":x,"got":format!("{got}")}));
                            }
                        }
                    }
                }
                (bad, nq)
            }));
            match r {
                Ok((b, q)) => {
                    bad = b;
                    nq = q;
                }
                Err(e) => bad.push(json!({"what":"panic","msg":e})),
            }
        }
        bad.truncate(4);
        out.ev(json!({"op":"DLoad","variant":"double","spec":{"min":min,"max":max,"cs":d["cs"]},"k":k,"loaded":ok,"bad":bad,"nq":nq}));
        n += 1;
        // other encodings of the same digest: every grid answer must be bit-identical to the double image's
        let total: u64 = cs.iter().map(|c| c.1).sum();
        if total > 1 && li % 4 == 0 {
            let reference = TDigestMut::deserialize(&img, false);
            let grid_v: Vec<f64> = d["vs"].as_array().unwrap().iter().map(|v| rat(v).unwrap()).collect();
            let grid_q: Vec<f64> = d["qs"].as_array().unwrap().iter().map(|v| rat(v).unwrap()).collect();
            let answers = |td: &mut TDigestMut| -> Vec<u64> {
                let mut a: Vec<u64> = grid_v.iter().map(|&v| td.rank(v).unwrap().to_bits()).collect();
                a.extend(grid_q.iter().map(|&q| td.quantile(q).unwrap().to_bits()));
                a.push(td.total_weight());
                a.push(td.min_value().unwrap().to_bits());
                a.push(td.max_value().unwrap().to_bits());
                a
            };
            let buffered = [min, max, (min + max) / 2.0];
            let variants: Vec<(&str, Vec<u8>, bool, usize)> = vec![
                ("f32", image_f32(k, min, max, &cs, &[]), true, 0),
                ("compat-double", image_compat(1, k, min, max, &cs), false, 0),
                ("compat-float", image_compat(2, k, min, max, &cs), false, 0),
                ("double-buffered", image_buf(k, min, max, &cs, &buffered), false, 3),
                ("f32-buffered", image_f32(k, min, max, &cs, &buffered), true, 3),
            ];
            if let Ok(mut refd) = reference {
                for (name, vimg, is_f32, nbuf) in variants {
                    let r = catch(std::panic::AssertUnwindSafe(|| {
                        let mut want = TDigestMut::deserialize(&img, false).unwrap();
                        for v in buffered.iter().take(nbuf) {
                            want.update(*v);
                        }
                        let want_a = answers(&mut want);
                        match TDigestMut::deserialize(&vimg, is_f32) {
                            Ok(mut got) => (true, answers(&mut got) == want_a, String::new()),
                            Err(e) => (false, false, format!("{e:?}")),
                        }
                    }));
                    let _ = &mut refd;
                    let (loaded, same, err) = match r {
                        Ok(x) => x,
                        Err(p) => (false, false, p),
                    };
                    let bad: Vec<Value> = if loaded && same { vec![] } else { vec![json!({"what":"variant","variant":name,"err":err})] };
                    out.ev(json!({"op":"DLoad","variant":name,"spec":{"min":min,"max":max,"cs":d["cs"]},"k":k,"loaded":loaded,"bad":bad,"nq":grid_v.len() + grid_q.len()}));
                    n += 1;
                }
            }
        }
    }
    let (runs, events) = out.finish();
    println!("{}", json!({"runs":runs,"events":events,"digests":n}));
}

struct Td {
    d: TDigestMut,
    smin: f64,
    smax: f64,
    cmin: u64, // how many offered values equal the minimum / maximum (exact data, kept by the driver)
    cmax: u64,
}

impl Td {
    fn see(&mut self, v: f64, c: u64) {
        if v < self.smin {
            self.smin = v;
            self.cmin = c;
        } else if v == self.smin {
            self.cmin += c;
        }
        if v > self.smax {
            self.smax = v;
            self.cmax = c;
        } else if v == self.smax {
            self.cmax += c;
        }
    }
}

fn chk(out: &mut Shards, id: usize, t: &mut Td, rng: &mut Rng) -> bool {
    let r = catch(std::panic::AssertUnwindSafe(|| {
        let k = t.d.k();
        // queries flush the update buffer: whichever query comes first on the untouched object must
        // answer as it does after a serialize() (each one tried first on its own copy)
        let untouched = t.d.clone();
        let bytes = t.d.serialize();
        let (min, max, cs) = decode(&bytes);
        let tw = t.d.total_weight();
        let mut first_bad: Vec<&str> = vec![];
        if tw > 0 {
            let probes: Vec<f64> = vec![min, max, cs[cs.len() / 2].0, cs[0].0, cs[cs.len() - 1].0];
            let same = |a: Option<f64>, b: Option<f64>| a.map(f64::to_bits) == b.map(f64::to_bits);
            for &v in &probes {
                if !v.is_nan() && !same(untouched.clone().rank(v), t.d.rank(v)) {
                    first_bad.push("rank");
                }
            }
            for &q in &[0.0, 0.1, 0.5, 0.9, 1.0] {
                if !same(untouched.clone().quantile(q), t.d.quantile(q)) {
                    first_bad.push("quantile");
                }
            }
            let sp = [probes[2]];
            if !sp[0].is_nan() {
                let bits = |v: Option<Vec<f64>>| v.map(|x| x.iter().map(|y| y.to_bits()).collect::<Vec<_>>());
                if bits(untouched.clone().cdf(&sp)) != bits(t.d.cdf(&sp)) {
                    first_bad.push("cdf");
                }
                if bits(untouched.clone().pmf(&sp)) != bits(t.d.pmf(&sp)) {
                    first_bad.push("pmf");
                }
            }
            let u = untouched.clone();
            if u.total_weight() != tw || u.min_value().map(f64::to_bits) != t.d.min_value().map(f64::to_bits)
                || u.max_value().map(f64::to_bits) != t.d.max_value().map(f64::to_bits) {
                first_bad.push("scalars");
            }
            let fr = untouched.clone().freeze();
            if !same(fr.quantile(0.5), t.d.quantile(0.5)) || !same(fr.rank(probes[2]), t.d.rank(probes[2])) {
                first_bad.push("freeze");
            }
        }
        first_bad.dedup();
        if tw == 0 {
            return json!({"op":"DChk","id":id,"k":k,"tw":0,"ws":[],"means":[],"len":bytes.len(),"min":0,"max":0,"smin":0,"smax":0,
                "rmin1e6":0,"rmax1e6":1000000,"cmin":0,"cmax":0,"img":bytes,"rev":bytes[5] & 4 != 0,"minb":[],"maxb":[],"mb":[]});
        }
        // grids
        let nv = 40;
        // convex combinations: max - min may overflow for values near +-f64::MAX
        let lerp = |t: f64| if max > min { min * (1.0 - t) + max * t } else { min + t };
        let mut vs: Vec<f64> = (0..=nv).map(|i| lerp(i as f64 / nv as f64)).collect();
        for c in cs.iter().take(10) {
            vs.push(c.0);
        }
        vs.push(min);
        vs.push(max);
        vs.retain(|v| !v.is_nan());
        vs.sort_by(|a, b| a.partial_cmp(b).unwrap());
        let rs: Vec<f64> = vs.iter().map(|&v| t.d.rank(v).unwrap()).collect();
        let far = (min.abs() + max.abs() + 1.0).min(f64::MAX);
        let rbelow = t.d.rank(min - far).unwrap();
        let rabove = t.d.rank(max + far).unwrap();
        let nq = 40;
        let qgrid: Vec<f64> = (0..=nq).map(|i| i as f64 / nq as f64).collect();
        let qs: Vec<f64> = qgrid.iter().map(|&q| t.d.quantile(q).unwrap()).collect();
        // one rank space for all floats of this event
        let mut all = vec![min, max, t.smin, t.smax, 0.0, 1.0];
        all.extend(cs.iter().map(|c| c.0));
        all.extend(qs.iter());
        let rk_vals = ranks(&all);
        let base = 6;
        let means_r = &rk_vals[base..base + cs.len()];
        let qs_r = &rk_vals[base + cs.len()..];
        // ranks (results in [0,1]) live in their own rank space with 0 and 1
        let mut rr = vec![0.0, 1.0, rbelow, rabove];
        rr.extend(rs.iter());
        let rr_r = ranks(&rr);
        // cdf / pmf consistency on sorted distinct split points
        // inside, at both extremes exactly, and outside on both sides
        let mut sp: Vec<f64> = (1..8).map(|i| lerp(i as f64 / 8.0)).collect();
        sp.push(min);
        sp.push(max);
        if (min - far).is_finite() && (max + far).is_finite() {
            sp.push(min - far);
            sp.push(max + far);
        }
        sp.retain(|v| !v.is_nan());
        sp.sort_by(|a, b| a.partial_cmp(b).unwrap());
        sp.dedup();
        let cdf = t.d.cdf(&sp).unwrap();
        let pmf = t.d.pmf(&sp).unwrap();
        let cdf_ok = cdf.len() == sp.len() + 1
            && sp.iter().enumerate().all(|(i, &p)| cdf[i].to_bits() == t.d.rank(p).unwrap().to_bits())
            && *cdf.last().unwrap() == 1.0;
        let pmf_ok = (pmf.iter().sum::<f64>() - 1.0).abs() < 1e-9 && pmf.iter().all(|&x| x >= -1e-12);
        let empty_split_ok = t.d.cdf(&[]).map(|v| v == vec![1.0]).unwrap_or(false) && t.d.pmf(&[]).map(|v| v == vec![1.0]).unwrap_or(false);
        // rank(quantile(q)) vs q, in 1e-6 units; resolution = largest mass at one point / W
        let mut maxatom = 0u64;
        let mut i = 0;
        while i < cs.len() {
            let mut j = i;
            let mut w = 0;
            while j < cs.len() && cs[j].0 == cs[i].0 {
                w += cs[j].1;
                j += 1;
            }
            maxatom = maxatom.max(w);
            i = j;
        }
        // (rank's documented precondition: the argument is not NaN)
        let rq: Vec<i64> = qs.iter().map(|&x| if x.is_nan() { -1 } else { (t.d.rank(x).unwrap() * 1e6).round() as i64 }).collect();
        let q6: Vec<i64> = qgrid.iter().map(|&q| (q * 1e6).round() as i64).collect();
        let res6 = ((maxatom as f64 / tw as f64) * 1e6).ceil() as i64 + 2;
        let _ = rng;
        // heavy centroids (at least 2% of the total weight): weight and the quantiles of both edges, in
        // thousandths, rounded down (C15: the scale function limits what a centroid may hold where it sits)
        let mut wq: Vec<Value> = vec![];
        let mut left = 0u64;
        for (i, c) in cs.iter().enumerate() {
            let w3 = (1000u128 * c.1 as u128 / tw as u128) as u64;
            if w3 >= 20 && i != 0 && i + 1 != cs.len() {
                wq.push(json!([w3, (1000u128 * left as u128 / tw as u128) as u64, (1000u128 * (left + c.1) as u128 / tw as u128) as u64, c.1.min(1 << 30)]));
            }
            left += c.1;
        }
        json!({"op":"DChk","id":id,"k":k,"tw":tw,"wq":wq,"ws":cs.iter().map(|c| c.1).collect::<Vec<_>>(),
            "means":means_r,"len":bytes.len(),
            "min":rk_vals[0],"max":rk_vals[1],"smin":rk_vals[2],"smax":rk_vals[3],
            "rs":&rr_r[4..],"r0":rr_r[0],"r1":rr_r[1],"rbelow":rr_r[2],"rabove":rr_r[3],
            "qs":qs_r,"first_bad":first_bad,"cdf_ok":cdf_ok,"pmf_ok":pmf_ok,"empty_split_ok":empty_split_ok,
            "rq":rq,"q6":q6,"res6":res6,
            "cmin":t.cmin,"cmax":t.cmax,
            "rev":bytes[5] & 4 != 0,
            "minb":min.to_le_bytes().to_vec(),"maxb":max.to_le_bytes().to_vec(),
            "mb":cs.iter().map(|c| c.0.to_le_bytes().to_vec()).collect::<Vec<_>>(),
            // the same two ranks asked first of an untouched copy (values may still sit in its buffer)
            "rminf1e6":(untouched.clone().rank(min).unwrap() * 1e6).round() as i64,
            "rmaxf1e6":(untouched.clone().rank(max).unwrap() * 1e6).round() as i64,
            "rmin1e6":(t.d.rank(min).unwrap() * 1e6).round() as i64,
            "rmax1e6":(t.d.rank(max).unwrap() * 1e6).round() as i64})
    }));
    match r {
        Ok(mut v) => {
            // C12: the image itself (small ones), re-encoded by the specification
            let img = t.d.serialize();
            if img.len() <= 2000 && v.get("img").is_none() {
                v["img"] = json!(img);
            }
            out.ev(v);
            true
        }
        Err(e) => {
            out.ev(json!({"op":"Panic","in":"query","key":e.split(": ").next().unwrap_or(""),"msg":e}));
            false
        }
    }
}

fn gen_value(rng: &mut Rng, shape: u8, i: usize, n: usize) -> f64 {
    match shape {
        0 => i as f64,                                            // sorted ramp
        1 => (n - i) as f64,                                      // reversed
        2 => rng.f64() * 1000.0 - 500.0,                          // random
        3 => (rng.below(7) as f64) * 10.0,                        // heavy duplicates
        4 => {
            let c = [0.0, 1e-3, 1e6][rng.below(3) as usize];      // clustered
            c + rng.f64() * 1e-6
        }
        5 => {
            let e = rng.range(0, 600) as i32 - 300;               // huge magnitude range
            let s = if rng.chance(1, 2) { -1.0 } else { 1.0 };
            s * (1.0 + rng.f64()) * 10f64.powi(e)
        }
        7 => {
            let s = if rng.chance(1, 2) { -1.0 } else { 1.0 };      // opposite signs near f64::MAX
            s * (1.5e308 + rng.f64() * 0.2e308)
        }
        10 => 1e308 + (i as f64) * 3e304 * (1.0 + rng.f64()),      // one sign, products with weights overflow
        8 => [0.1, 0.3, 0.7, 1.1, -2.3][rng.below(5) as usize],   // heavy duplicates of non-dyadic values
        9 => 0.1,                                                 // constant, non-dyadic
        _ => 42.0,                                                // all equal
    }
}

fn feed(out: &mut Shards, id: usize, t: &mut Td, rng: &mut Rng, shape: u8, n: usize) -> bool {
    let mut fin = 0u64;
    let r = catch(std::panic::AssertUnwindSafe(|| {
        for i in 0..n {
            let v = if rng.chance(1, 200) {
                [f64::NAN, f64::INFINITY, f64::NEG_INFINITY][rng.below(3) as usize]
            } else {
                gen_value(rng, shape, i, n)
            };
            t.d.update(v);
            if v.is_finite() {
                fin += 1;
                t.see(v, 1);
            }
        }
    }));
    match r {
        Ok(()) => {
            out.ev(json!({"op":"DUpd","id":id,"n":fin}));
            true
        }
        Err(e) => {
            out.ev(json!({"op":"Panic","in":"update","key":e.split(": ").next().unwrap_or(""),"msg":e}));
            false
        }
    }
}

/// a.merge(o) with the ghost extremes carried along; logs DMerge
fn merge_into(out: &mut Shards, ds: &mut Vec<Td>, a: usize, o: usize) -> bool {
    let other = ds[o].d.clone();
    let r = catch(std::panic::AssertUnwindSafe(|| ds[a].d.merge(&other)));
    if let Err(e) = r {
        out.ev(json!({"op":"Panic","in":"merge","key":e.split(": ").next().unwrap_or(""),"msg":e}));
        return false;
    }
    let (omin, omax, ocmin, ocmax) = (ds[o].smin, ds[o].smax, ds[o].cmin, ds[o].cmax);
    if ocmin > 0 {
        // only the extremes matter for the ghost
        let keep = (ds[a].smin, ds[a].smax);
        ds[a].see(omin, ocmin);
        let _ = keep;
        if omax > ds[a].smax { ds[a].smax = omax; ds[a].cmax = ocmax; } else if omax == ds[a].smax && omax != omin { ds[a].cmax += ocmax; } else if omax == ds[a].smax && omax == omin && ds[a].smin != ds[a].smax { ds[a].cmax += ocmax; }
    }
    out.ev(json!({"op":"DMerge","id":a,"src":o}));
    true
}

/// fold parts into a fresh (empty or single-valued) accumulator: the donors still hold buffered values
fn fold_scenario(out: &mut Shards, rng: &mut Rng, k: u16, shape: u8, parts: usize, single: bool) {
    out.next_run("td-fold");
    let mut ds: Vec<Td> = vec![];
    let mk = |out: &mut Shards, ds: &mut Vec<Td>| {
        let id = ds.len();
        ds.push(Td { d: TDigestMut::new(k), smin: f64::INFINITY, smax: f64::NEG_INFINITY, cmin: 0, cmax: 0 });
        out.ev(json!({"op":"DNew","id":id,"k":k}));
        id
    };
    let a = mk(out, &mut ds);
    if single && !feed(out, a, &mut ds[a], rng, shape, 1) {
        return;
    }
    let cap = 2 * k as usize + 30;
    for _ in 0..parts {
        let o = mk(out, &mut ds);
        // more values than the centroid bound, some of them still in the donor's buffer
        let cnt = cap + 1 + rng.below(4 * cap as u64) as usize;
        if !feed(out, o, &mut ds[o], rng, shape, cnt) {
            return;
        }
        if !merge_into(out, &mut ds, a, o) || !chk(out, a, &mut ds[a], rng) {
            return;
        }
    }
}

/// digests of different k: a small-k accumulator (empty at first) takes over donors of larger k that
/// have been queried (compressed) since their last update; the accumulator's own bound must hold at once
fn fold_mixed(out: &mut Shards, rng: &mut Rng, k: u16, donor_ks: &[u16], shape: u8) {
    out.next_run("td-fold-mixed");
    let mut ds: Vec<Td> = vec![];
    let mk = |out: &mut Shards, ds: &mut Vec<Td>, k: u16| {
        let id = ds.len();
        ds.push(Td { d: TDigestMut::new(k), smin: f64::INFINITY, smax: f64::NEG_INFINITY, cmin: 0, cmax: 0 });
        out.ev(json!({"op":"DNew","id":id,"k":k}));
        id
    };
    let a = mk(out, &mut ds, k);
    for &dk in donor_ks {
        let o = mk(out, &mut ds, dk);
        let cnt = 6 * dk as usize + 100 + rng.below(500) as usize;
        if !feed(out, o, &mut ds[o], rng, shape, cnt) || !chk(out, o, &mut ds[o], rng) {
            return;
        }
        if !merge_into(out, &mut ds, a, o) || !chk(out, a, &mut ds[a], rng) {
            return;
        }
    }
}

fn scenario(out: &mut Shards, rng: &mut Rng, k: u16, shape: u8, n: usize, merges: usize) {
    // shape 7 (finite values of opposite sign above f64::MAX / 2) is its own scenario class
    out.next_run(if shape == 7 { "td-stream-maxmag" } else { "td-stream" });
    let mut ds: Vec<Td> = vec![];
    let mk = |out: &mut Shards, ds: &mut Vec<Td>| {
        let id = ds.len();
        ds.push(Td { d: TDigestMut::new(k), smin: f64::INFINITY, smax: f64::NEG_INFINITY, cmin: 0, cmax: 0 });
        out.ev(json!({"op":"DNew","id":id,"k":k}));
        id
    };
    let a = mk(out, &mut ds);
    if !chk(out, a, &mut ds[a], rng) {
        return;
    }
    let mut left = n;
    while left > 0 {
        let b = (1 + rng.below(2 * n as u64 / 5 + 1) as usize).min(left);
        if !feed(out, a, &mut ds[a], rng, shape, b) || !chk(out, a, &mut ds[a], rng) {
            return;
        }
        left -= b;
    }
    // merge tree
    for m in 0..merges {
        let o = mk(out, &mut ds);
        let shape2 = if m % 2 == 0 || shape == 7 { shape } else { rng.below(7) as u8 };
        let cnt = 1 + rng.below((n as u64 / 3).max(2)) as usize;
        if !feed(out, o, &mut ds[o], rng, shape2, cnt) {
            return;
        }
        if rng.chance(1, 2) && !chk(out, o, &mut ds[o], rng) {
            return;
        }
        if !merge_into(out, &mut ds, a, o) {
            return;
        }
        if !chk(out, a, &mut ds[a], rng) {
            return;
        }
    }
    // freeze / unfreeze and serialize / deserialize, then keep going on the copies
    let frozen = ds[a].d.clone().freeze();
    let un = frozen.unfreeze();
    let id_f = ds.len();
    let (smin, smax, cmin, cmax) = (ds[a].smin, ds[a].smax, ds[a].cmin, ds[a].cmax);
    ds.push(Td { d: un, smin, smax, cmin, cmax });
    out.ev(json!({"op":"DCopy","id":a,"to":id_f,"same":true,"how":"freeze-unfreeze"}));
    if !chk(out, id_f, &mut ds[id_f], rng) {
        return;
    }
    let bytes = ds[a].d.serialize();
    match TDigestMut::deserialize(&bytes, false) {
        Ok(mut back) => {
            let same = back.serialize() == bytes;
            let id_s = ds.len();
            ds.push(Td { d: back, smin, smax, cmin, cmax });
            out.ev(json!({"op":"DCopy","id":a,"to":id_s,"same":same,"how":"serialize-deserialize"}));
            if !chk(out, id_s, &mut ds[id_s], rng) {
                return;
            }
            // the copy and the original under the same further history: one batch of updates long enough
            // to force several compressions, then one merge of a populated digest
            if shape != 7 {
                let r = catch(std::panic::AssertUnwindSafe(|| {
                    // y: a fresh decode that no query or serialize has touched yet
                    let mut x = ds[a].d.clone();
                    let mut y = TDigestMut::deserialize(&bytes, false).expect("decoded above");
                    let cn = 45 * k as usize + 300;
                    let vals: Vec<f64> = (0..cn).map(|i| gen_value(rng, shape, i, cn)).collect();
                    for &v in &vals {
                        x.update(v);
                        y.update(v);
                    }
                    let upd_same = x.serialize() == y.serialize();
                    let mut donor = TDigestMut::new(k);
                    for (i, &v) in vals.iter().enumerate().take(40 * k as usize + 7) {
                        donor.update(v + i as f64);
                    }
                    let mut x = ds[a].d.clone();
                    let mut y = TDigestMut::deserialize(&bytes, false).expect("decoded above");
                    x.merge(&donor);
                    y.merge(&donor);
                    let q = [0.01, 0.25, 0.5, 0.99];
                    let merge_same = x.serialize() == y.serialize()
                        && (x.is_empty() || q.iter().all(|&q| x.quantile(q).map(f64::to_bits) == y.quantile(q).map(f64::to_bits)));
                    (upd_same, merge_same)
                }));
                // the same with values still pending in the buffer when the image is written: the image must
                // describe the digest as serialize() leaves it (writing twice gives the same bytes), and the
                // decoded copy and the original stay identical under the same long continuation
                let r2 = catch(std::panic::AssertUnwindSafe(|| {
                    let mut x = ds[a].d.clone();
                    for i in 0..7 {
                        x.update(gen_value(rng, shape, i, 7));
                    }
                    let b1 = x.serialize();
                    let b2 = x.serialize();
                    let mut y = TDigestMut::deserialize(&b1, false).expect("own image");
                    let cn = 45 * k as usize + 300;
                    for i in 0..cn {
                        let v = gen_value(rng, shape, i, cn);
                        x.update(v);
                        y.update(v);
                    }
                    (b1 == b2, x.serialize() == y.serialize())
                }));
                let (idem, pend_same) = match r2 {
                    Ok(t) => t,
                    Err(e) => {
                        out.ev(json!({"op":"Panic","in":"continuation","key":e.split(": ").next().unwrap_or(""),"msg":e}));
                        return;
                    }
                };
                match r {
                    Ok((u, m)) => out.ev(json!({"op":"DCont","id":a,"copy":id_s,"upd_same":u && idem && pend_same,"merge_same":m,"idem":idem,"pend_same":pend_same})),
                    Err(e) => {
                        out.ev(json!({"op":"Panic","in":"continuation","key":e.split(": ").next().unwrap_or(""),"msg":e}));
                        return;
                    }
                }
            }
            if !feed(out, id_s, &mut ds[id_s], rng, shape, 50) {
                return;
            }
            chk(out, id_s, &mut ds[id_s], rng);
        }
        Err(e) => {
            out.ev(json!({"op":"Panic","in":"deserialize-own-image","key":"Err","msg":format!("{e:?}")}));
        }
    }
}

/// Given values into digest `id`; logs DUpd.
fn feed_vals(out: &mut Shards, id: usize, t: &mut Td, vals: &[f64]) -> bool {
    let r = catch(std::panic::AssertUnwindSafe(|| {
        for &v in vals {
            t.d.update(v);
            t.see(v, 1);
        }
    }));
    match r {
        Ok(()) => {
            out.ev(json!({"op":"DUpd","id":id,"n":vals.len()}));
            true
        }
        Err(e) => {
            out.ev(json!({"op":"Panic","in":"update","key":e.split(": ").next().unwrap_or(""),"msg":e}));
            false
        }
    }
}

/// A digest decoded from a valid image with heavy end centroids (states the in-process algorithm does
/// not produce on its own), then taken through further history: values strictly between an extreme and
/// the nearest centroid mean become first / last centroids of weight 1 that are not the extreme.
fn decoded_then_updated(out: &mut Shards, rng: &mut Rng, k: u16) {
    out.next_run("td-decoded-updated");
    let n = 2 + rng.below(4) as usize;
    let mut means: Vec<f64> = (0..n).map(|_| (rng.below(2000) as f64) / 8.0 - 100.0).collect();
    means.sort_by(|a, b| a.partial_cmp(b).unwrap());
    means.dedup();
    if means.len() < 2 {
        means.push(means[0] + 7.5);
    }
    let n = means.len();
    let mut cs: Vec<(f64, u64)> = means.iter().map(|&m| (m, *rng.pick(&[1u64, 1, 2, 3, 5, 40]))).collect();
    let heavy_first = rng.chance(2, 3);
    let heavy_last = !heavy_first || rng.chance(1, 2);
    let (mut min, mut max) = (cs[0].0, cs[n - 1].0);
    if heavy_first {
        cs[0].1 = *rng.pick(&[2u64, 3, 4, 9, 60]);
    } else {
        cs[0].1 = 1;
    }
    if heavy_last {
        cs[n - 1].1 = *rng.pick(&[2u64, 3, 4, 9, 60]);
    } else {
        cs[n - 1].1 = 1;
    }
    // the extreme sample sits in the heavy end centroid with w - 1 other samples of [min, max]
    let span = cs[n - 1].0 - cs[0].0;
    if heavy_last {
        let room = (cs[n - 1].1 - 1) as f64 * span;
        max = cs[n - 1].0 + (room * (1 + rng.below(4)) as f64 / 8.0).min(64.0);
    }
    if heavy_first {
        let room = (cs[0].1 - 1) as f64 * (max - cs[0].0);
        min = cs[0].0 - (room * (1 + rng.below(4)) as f64 / 8.0).min(64.0);
    }
    let total: u64 = cs.iter().map(|c| c.1).sum();
    let img = image(k, min, max, &cs, rng.chance(1, 2));
    let d = match catch(std::panic::AssertUnwindSafe(|| TDigestMut::deserialize(&img, false))) {
        Ok(Ok(d)) => d,
        Ok(Err(e)) => {
            out.ev(json!({"op":"Panic","in":"deserialize-valid-image","key":"Err","msg":format!("{e:?}")}));
            return;
        }
        Err(e) => {
            out.ev(json!({"op":"Panic","in":"deserialize-valid-image","key":e.split(": ").next().unwrap_or(""),"msg":e}));
            return;
        }
    };
    // cmin / cmax = 2: nothing is claimed about how often the extremes occur in the encoded stream
    let mut t = Td { d, smin: min, smax: max, cmin: 2, cmax: 2 };
    out.ev(json!({"op":"DFrom","id":0,"k":k,"tw":total.min(1 << 30)}));
    if !chk(out, 0, &mut t, rng) {
        return;
    }
    let rounds = 1 + rng.below(3);
    for _ in 0..rounds {
        let mut vals = vec![];
        let (lo_m, hi_m) = (cs[0].0, cs[n - 1].0);
        if min < lo_m {
            for _ in 0..1 + rng.below(2) {
                vals.push(min + (lo_m - min) * (1 + rng.below(7)) as f64 / 8.0);
            }
        }
        if hi_m < max {
            for _ in 0..1 + rng.below(2) {
                vals.push(hi_m + (max - hi_m) * (1 + rng.below(7)) as f64 / 8.0);
            }
        }
        if rng.chance(1, 3) {
            vals.push(lo_m + span * rng.f64());
        }
        if !feed_vals(out, 0, &mut t, &vals) || !chk(out, 0, &mut t, rng) {
            return;
        }
    }
    // the state reached is written and read back like any other, and keeps answering
    let bytes = t.d.serialize();
    match catch(std::panic::AssertUnwindSafe(|| TDigestMut::deserialize(&bytes, false))) {
        Ok(Ok(mut back)) => {
            let same = back.serialize() == bytes;
            out.ev(json!({"op":"DCopy","id":0,"to":1,"same":same,"how":"serialize-deserialize"}));
            let mut t2 = Td { d: back, smin: t.smin, smax: t.smax, cmin: t.cmin, cmax: t.cmax };
            if !chk(out, 1, &mut t2, rng) {
                return;
            }
            let more = 30 + rng.below(400) as usize;
            if feed(out, 1, &mut t2, rng, 2, more) {
                chk(out, 1, &mut t2, rng);
            }
        }
        Ok(Err(e)) => out.ev(json!({"op":"Panic","in":"deserialize-own-image","key":"Err","msg":format!("{e:?}")})),
        Err(e) => out.ev(json!({"op":"Panic","in":"deserialize-own-image","key":e.split(": ").next().unwrap_or(""),"msg":e})),
    }
}

pub fn record(args: &Args) {
    let seed = args.u64("seed", 1);
    let mut rng = Rng::new(seed ^ 0x7D16);
    let thorough = args.thorough();
    let mut out = Shards::create(&args.str("out", "td"), args.u64("shards", 8) as usize);
    let reps = if thorough { 4 } else { 1 };
    let ks: Vec<u16> = if thorough { vec![10, 11, 20, 29, 30, 31, 50, 100, 200, 350, 500] } else { vec![10, 29, 30, 100, 200, 500] };
    for _ in 0..reps {
        for &k in &ks {
            for shape in 0..11u8 {
                let n = if thorough { *rng.pick(&[1usize, 2, 5, 100, 3000, 40000, 200000]) } else { *rng.pick(&[1usize, 2, 3, 50, 1000, 12000]) };
                let merges = if n > 50000 { 1 } else { rng.below(5) as usize };
                scenario(&mut out, &mut rng, k, shape, n, merges);
            }
        }
        // a single value, copied, then a long further history on the copy and on the original
        for &k in &[10u16, 20, 50, 100, 500] {
            let shape = *rng.pick(&[0u8, 2, 8]);
            scenario(&mut out, &mut rng, k, shape, 1, 0);
        }
        for &(k, single) in &[(10u16, false), (30, false), (30, true), (200, true), (500, true)] {
            let shape = *rng.pick(&[0u8, 2, 3, 5]);
            fold_scenario(&mut out, &mut rng, k, shape, if k > 100 { 3 } else { 16 }, single);
        }
        for i in 0..(if thorough { 120 } else { 40 }) {
            decoded_then_updated(&mut out, &mut rng, [10u16, 25, 100, 200, 500][i % 5]);
        }
        fold_mixed(&mut out, &mut rng, 20, &[400, 100], 2);
        fold_mixed(&mut out, &mut rng, 10, &[500], 0);
        fold_mixed(&mut out, &mut rng, 30, &[200, 500, 64], 5);
        // merge tree of 16 digests
        scenario(&mut out, &mut rng, 100, 2, 2000, 15);
        if thorough {
            scenario(&mut out, &mut rng, 200, 2, 1_000_000, 0);
            scenario(&mut out, &mut rng, 10, 0, 300_000, 2);
            scenario(&mut out, &mut rng, 65535, 2, 5000, 1);
        }
    }
    let (runs, events) = out.finish();
    println!("{}", json!({"runs":runs,"events":events}));
}
