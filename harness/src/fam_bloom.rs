//! Bloom filter: drive the real objects and record traces for Trace_Bloom.tla.
use datasketches::bloom::{BloomFilter, BloomFilterBuilder};
use serde_json::{Value, json};

use crate::refhash;
use crate::util::*;

/// reference positions ((h0 + i*h1) >> 1) mod capacity, i = 1..k; h0 = XXH64(item, seed), h1 = XXH64(item, h0)
pub fn positions<T: std::hash::Hash>(item: &T, seed: u64, k: u16, cap: u64) -> Vec<u64> {
    let bytes = refhash::hashed_bytes(item);
    let h0 = refhash::xxh64(&bytes, seed);
    let h1 = refhash::xxh64(&bytes, h0);
    (1..=k as u64).map(|i| (h0.wrapping_add(i.wrapping_mul(h1)) >> 1) % cap).collect()
}

/// set bit indexes decoded from the image (32-byte preamble when non-empty)
pub fn image_bits(bytes: &[u8]) -> Vec<u64> {
    let mut v = vec![];
    if bytes.len() <= 24 {
        return v;
    }
    for (wi, w) in bytes[32..].chunks(8).enumerate() {
        let word = u64::from_le_bytes(w.try_into().unwrap());
        for b in 0..64 {
            if word >> b & 1 == 1 {
                v.push(wi as u64 * 64 + b);
            }
        }
    }
    v
}

#[derive(Clone)]
enum Item {
    U(u64),
    S(String),
    /// four 8-byte writes: the hashed sequence ends exactly on a 32-byte stripe
    Q((u64, u64, u64, u64)),
}

fn pos_of(it: &Item, seed: u64, k: u16, cap: u64) -> Vec<u64> {
    match it {
        Item::U(x) => positions(x, seed, k, cap),
        Item::S(s) => positions(&s.as_str(), seed, k, cap),
        Item::Q(q) => positions(q, seed, k, cap),
    }
}

/// C13: the filter's state as an image written by the harness (layout of Trace_Bloom.tla), exact or with
/// the dirty marker as bit count, and what the library decodes it to
fn load(out: &mut Shards, id: usize, f: &BloomFilter) {
    let own = f.serialize();
    if own.len() > 600 {
        return;
    }
    for dirty in [false, true] {
        let mut img = own.clone(); // (own == the specification's encoding is what C12 checks)
        if dirty && img.len() > 32 {
            img[24..32].fill(0xff);
        }
        let r = catch(std::panic::AssertUnwindSafe(|| BloomFilter::deserialize(&img)));
        let mut e = json!({"op":"BLoad","id":id,"dirty":dirty,"img":img,"seed8":f.seed().to_le_bytes().to_vec(),
            "ok":false,"bits":[],"used":0,"again":[]});
        match r {
            Ok(Ok(back)) => {
                let again = back.serialize();
                e["ok"] = json!(true);
                e["bits"] = json!(image_bits(&again));
                e["used"] = json!(back.bits_used());
                e["again"] = json!(again);
            }
            Ok(Err(err)) => e["err"] = json!(format!("{err:?}")),
            Err(p) => {
                out.ev(json!({"op":"Panic","in":"deserialize-variant","key":p.split(": ").next().unwrap_or(""),"msg":p}));
                return;
            }
        }
        out.ev(e);
    }
}

fn chk(out: &mut Shards, id: usize, f: &BloomFilter) {
    load(out, id, f);
    let b = f.serialize();
    let mut e = json!({"op":"BChk","id":id,"bits":image_bits(&b),"used":f.bits_used(),"len":b.len()});
    if b.len() <= 600 {
        e["img"] = json!(b);
        e["seed8"] = json!(f.seed().to_le_bytes().to_vec());
    }
    out.ev(e);
}

fn scenario(out: &mut Shards, rng: &mut Rng, nbits: u64, k: u16, seed: u64, n_items: usize, n_ops: usize, allow_invert: bool) {
    out.next_run("bloom-random");
    let mk = || BloomFilterBuilder::with_size(nbits, k).seed(seed).build();
    let mut fs = vec![mk(), mk()];
    let cap = fs[0].capacity() as u64;
    for id in 0..2 {
        out.ev(json!({"op":"BNew","id":id,"cap":cap,"k":k,"nbits":nbits}));
    }
    let items: Vec<Item> = (0..n_items)
        .map(|i| match i % 7 {
            0 | 3 => Item::S(format!("item-{}", rng.below(1 << 30))),
            // strings of 31, 63, 95 bytes: with the 0xff terminator the hashed sequence is whole stripes
            5 => Item::S(format!("{:0>width$}", rng.below(1 << 30), width = [31usize, 63, 95, 15, 16][(i / 7) % 5])),
            6 => Item::Q((rng.next(), rng.next(), rng.next(), rng.next())),
            _ => Item::U(rng.next()),
        })
        .collect();
    for i in 0..n_ops {
        let which = if rng.chance(1, 3) { 1 } else { 0 };
        let it = rng.pick(&items).clone();
        let p = pos_of(&it, seed, k, cap);
        let r = rng.below(100);
        let res: Result<Value, String> = catch(std::panic::AssertUnwindSafe(|| {
            if r < 45 {
                match &it {
                    Item::U(x) => fs[which].insert(*x),
                    Item::S(s) => fs[which].insert(s.as_str()),
                    Item::Q(q) => fs[which].insert(*q),
                }
                json!({"op":"BIns","id":which,"p":p,"used":fs[which].bits_used()})
            } else if r < 55 {
                let was = match &it {
                    Item::U(x) => fs[which].contains_and_insert(x),
                    Item::S(s) => fs[which].contains_and_insert(&s.as_str()),
                    Item::Q(q) => fs[which].contains_and_insert(q),
                };
                json!({"op":"BCai","id":which,"p":p,"was":was,"used":fs[which].bits_used()})
            } else if r < 80 {
                let res = match &it {
                    Item::U(x) => fs[which].contains(x),
                    Item::S(s) => fs[which].contains(&s.as_str()),
                    Item::Q(q) => fs[which].contains(q),
                };
                json!({"op":"BQ","id":which,"p":p,"res":res})
            } else if r < 87 {
                let o = fs[1 - which].clone();
                fs[which].union(&o);
                json!({"op":"BUnion","id":which,"src":1 - which,"used":fs[which].bits_used()})
            } else if r < 92 {
                let o = fs[1 - which].clone();
                fs[which].intersect(&o);
                json!({"op":"BInter","id":which,"src":1 - which,"used":fs[which].bits_used()})
            } else if r < 95 && allow_invert {
                fs[which].invert();
                json!({"op":"BInvert","id":which,"used":fs[which].bits_used()})
            } else if r < 97 {
                fs[which].reset();
                json!({"op":"BReset","id":which,"used":fs[which].bits_used()})
            } else {
                let b = fs[which].serialize();
                match BloomFilter::deserialize(&b) {
                    Ok(back) => {
                        let same = back.serialize() == b;
                        let eq = back == fs[which];
                        let to = fs.len();
                        fs.push(back);
                        json!({"op":"BRT","id":which,"to":to,"same":same,"eq":eq})
                    }
                    Err(e) => json!({"op":"Panic","in":"deserialize-own-image","key":"Err","msg":format!("{e:?}")}),
                }
            }
        }));
        match res {
            Ok(v) => {
                let is_rt = v["op"] == "BRT";
                let is_panic = v["op"] == "Panic";
                out.ev(v);
                if is_panic {
                    return;
                }
                if is_rt {
                    let to = fs.len() - 1;
                    chk(out, to, &fs[to]);
                    // every item must still be answered identically by the copy
                    for it in items.iter().take(6) {
                        let p = pos_of(it, seed, k, cap);
                        let res = match it {
                            Item::U(x) => fs[to].contains(x),
                            Item::S(s) => fs[to].contains(&s.as_str()),
                            Item::Q(q) => fs[to].contains(q),
                        };
                        out.ev(json!({"op":"BQ","id":to,"p":p,"res":res}));
                    }
                }
            }
            Err(e) => {
                out.ev(json!({"op":"Panic","in":"bloom-op","key":e.split(": ").next().unwrap_or(""),"msg":e}));
                return;
            }
        }
        if (i + 1) % 25 == 0 || i + 1 == n_ops {
            chk(out, 0, &fs[0]);
            chk(out, 1, &fs[1]);
        }
    }
}

/// saturated words: an inverted (empty or sparse) filter used as a mask, tiny filters filled to the brim
fn saturated(out: &mut Shards, rng: &mut Rng, nbits: u64, k: u16) {
    out.next_run("bloom-saturated");
    let seed = 9001u64;
    let mk = || BloomFilterBuilder::with_size(nbits, k).seed(seed).build();
    let mut fs = vec![mk(), mk()];
    let cap = fs[0].capacity() as u64;
    for id in 0..2 {
        out.ev(json!({"op":"BNew","id":id,"cap":cap,"k":k,"nbits":nbits}));
    }
    let r: Result<(), String> = catch(std::panic::AssertUnwindSafe(|| {
        // mask = complement of an empty filter (every bit set)
        fs[1].invert();
        out.ev(json!({"op":"BInvert","id":1,"used":fs[1].bits_used()}));
        chk(out, 1, &fs[1]);
        for i in 0..3u64 {
            let x = rng.next() ^ i;
            fs[0].insert(x);
            out.ev(json!({"op":"BIns","id":0,"p":positions(&x, seed, k, cap),"used":fs[0].bits_used()}));
            // a single item may set fewer than k bits: it must be found all the same
            out.ev(json!({"op":"BQ","id":0,"p":positions(&x, seed, k, cap),"res":fs[0].contains(&x)}));
        }
        let o = fs[1].clone();
        fs[0].intersect(&o);
        out.ev(json!({"op":"BInter","id":0,"src":1,"used":fs[0].bits_used()}));
        chk(out, 0, &fs[0]);
        // fill a filter to the brim through inserts
        let mut n = 0;
        while (fs[0].bits_used() as u64) < cap && n < 4000 {
            let x = rng.next();
            fs[0].insert(x);
            out.ev(json!({"op":"BIns","id":0,"p":positions(&x, seed, k, cap),"used":fs[0].bits_used()}));
            n += 1;
        }
        chk(out, 0, &fs[0]);
        let o = fs[0].clone();
        fs[1].intersect(&o);
        out.ev(json!({"op":"BInter","id":1,"src":0,"used":fs[1].bits_used()}));
        chk(out, 1, &fs[1]);
    }));
    if let Err(e) = r {
        out.ev(json!({"op":"Panic","in":"bloom-op","key":e.split(": ").next().unwrap_or(""),"msg":e}));
    }
}

/// union / intersect between filters that differ in one configuration field: accepted exactly when
/// capacity, number of hash functions and seed all agree (an accepted mixed operation would silently
/// lose items: the probes of one filter are not the probes of the other)
fn refusals(out: &mut Shards, rng: &mut Rng) {
    out.next_run("bloom-refusals");
    let cfgs: Vec<(u64, u16, u64)> = vec![
        (4096, 5, 9001), (4096, 2, 9001), (4096, 5, 17), (4032, 5, 9001), (4096, 6, 9001), (64, 1, 9001), (64, 1, 0), (128, 1, 9001),
        (4090, 5, 9001), // rounds up to the capacity of the first: compatible with it
    ];
    for (i, &(na, ka, sa)) in cfgs.iter().enumerate() {
        for (j, &(nb, kb, sb)) in cfgs.iter().enumerate() {
            for kind in ["union", "inter"] {
                let mut a = BloomFilterBuilder::with_size(na, ka).seed(sa).build();
                let mut b = BloomFilterBuilder::with_size(nb, kb).seed(sb).build();
                let fill = (i + j) % 3; // 0: both loaded, 1: argument empty, 2: receiver empty
                for t in 0..20u64 {
                    if fill != 2 {
                        a.insert(rng.next() ^ t);
                    }
                    if fill != 1 {
                        b.insert(rng.next() ^ t);
                    }
                }
                let compat = a.is_compatible(&b);
                let accepted = catch(std::panic::AssertUnwindSafe(|| {
                    if kind == "union" {
                        a.union(&b)
                    } else {
                        a.intersect(&b)
                    }
                }))
                .is_ok();
                out.ev(json!({"op":"BTry","kind":kind,"compat":compat,"accepted":accepted,
                    "a":{"cap":a.capacity() as u64,"k":ka,"seed8":sa.to_le_bytes().to_vec()},
                    "b":{"cap":b.capacity() as u64,"k":kb,"seed8":sb.to_le_bytes().to_vec()}}));
            }
        }
    }
}

pub fn record(args: &Args) {
    let seed = args.u64("seed", 1);
    let mut rng = Rng::new(seed ^ 0xB100);
    let thorough = args.thorough();
    let mut out = Shards::create(&args.str("out", "bloom"), args.u64("shards", 8) as usize);
    let reps = if thorough { 6 } else { 1 };
    for _ in 0..reps {
        for &nbits in &[1u64, 63, 64, 65, 100, 128, 1000, 1024, 4096, 4097, 65536] {
            for &k in &[1u16, 2, 3, 7, 16] {
                if !thorough && rng.chance(1, 2) && nbits > 128 {
                    continue;
                }
                let fseed = *rng.pick(&[9001u64, 0, u64::MAX, 123456789]);
                let n_items = ((nbits as usize) / (2 * k as usize)).clamp(6, 60);
                scenario(&mut out, &mut rng, nbits, k, fseed, n_items, if thorough { 300 } else { 150 }, nbits <= 4097);
            }
        }
    }
    for &(nbits, k) in &[(64u64, 16u16), (64, 3), (128, 7), (192, 2), (1, 1)] {
        saturated(&mut out, &mut rng, nbits, k);
    }
    refusals(&mut out, &mut rng);
    let (runs, events) = out.finish();
    println!("{}", json!({"runs":runs,"events":events}));
}
