//! Count-Min: drive CountMinSketch<T> for every counter type; record traces for Trace_CountMin.tla.
use datasketches::countmin::{CountMinSketch, CountMinValue, UnsignedCountMinValue};
use serde_json::{Value, json};

use crate::refhash;
use crate::util::*;

/// per-row seeds: murmur3(row index as 8 LE bytes, sketch seed).h1
pub fn row_seeds(seed: u64, d: u8) -> Vec<u64> {
    (0..d).map(|i| refhash::murmur3_x64_128(&(i as u64).to_le_bytes(), seed).0).collect()
}

pub fn buckets(item: u64, seeds: &[u64], w: u32) -> Vec<u64> {
    let bytes = refhash::hashed_bytes(&item);
    seeds.iter().map(|s| refhash::murmur3_x64_128(&bytes, *s).0 % w as u64).collect()
}

pub trait Num: CountMinValue + Copy + std::fmt::Debug {
    fn of(x: u64) -> Self;
    fn val(self) -> i64;
    fn max_total() -> u64;
}
macro_rules! num {
    ($t:ty) => {
        impl Num for $t {
            fn of(x: u64) -> Self { x as $t }
            fn val(self) -> i64 { self as i64 }
            fn max_total() -> u64 { (<$t>::MAX as u64).min(1 << 30) }
        }
    };
}
num!(u8); num!(u16); num!(u32); num!(u64); num!(i8); num!(i16); num!(i32); num!(i64);

/// table and total decoded from the image (16-byte preamble, 8-byte LE values)
fn decode(bytes: &[u8]) -> (i64, Vec<i64>) {
    if bytes.len() <= 16 {
        return (0, vec![]);
    }
    let rd = |i: usize| i64::from_le_bytes(bytes[i..i + 8].try_into().unwrap());
    let total = rd(16);
    let n = (bytes.len() - 24) / 8;
    (total, (0..n).map(|i| rd(24 + 8 * i)).collect())
}

struct Cm<T: Num> {
    sk: CountMinSketch<T>,
    seeds: Vec<u64>,
}

impl<T: Num> Clone for Cm<T> {
    fn clone(&self) -> Self {
        Cm { sk: self.sk.clone(), seeds: self.seeds.clone() }
    }
}

fn chk<T: Num>(out: &mut Shards, id: usize, c: &Cm<T>, items: &[u64], d: u8, w: u32) {
    // a panic of a query is an event of the trace, not a failure of the recorder
    let r = catch(std::panic::AssertUnwindSafe(|| chk_inner(id, c, items, d, w)));
    match r {
        Ok(e) => out.ev(e),
        Err(e) => out.ev(json!({"op":"Panic","in":"query","key":e.split(": ").next().unwrap_or(""),"msg":e})),
    }
}

fn chk_inner<T: Num>(id: usize, c: &Cm<T>, items: &[u64], d: u8, w: u32) -> Value {
    let bytes = c.sk.serialize();
    let (tot, mut table) = decode(&bytes);
    if table.is_empty() {
        table = vec![0; d as usize * w as usize];
    }
    let q: Vec<Value> = items.iter().map(|&it| {
        json!({"x": it, "b": buckets(it, &c.seeds, w), "est": c.sk.estimate(it).val(),
               "lb": c.sk.lower_bound(it).val(), "ub": c.sk.upper_bound(it).val()})
    }).collect();
    let mut e = json!({"op":"CChk","id":id,"table":table,"tot":if bytes.len() <= 16 { c.sk.total_weight().val() } else { tot },"q":q,"len":bytes.len()});
    if bytes.len() <= 1200 {
        e["img"] = json!(bytes);
        e["sh"] = json!(refhash::seed_hash(c.sk.seed()).to_le_bytes().to_vec());
    }
    e
}

fn scenario<T: Num>(out: &mut Shards, rng: &mut Rng, tname: &str, d: u8, w: u32, seed: u64, n_items: usize, n_ops: usize,
    scale: &dyn Fn(&mut CountMinSketch<T>, u8) -> Option<Value>) {
    // a panic anywhere in the library (queries included) is an event of the trace
    let r = catch(std::panic::AssertUnwindSafe(|| scenario_inner::<T>(&mut *out, &mut *rng, tname, d, w, seed, n_items, n_ops, scale)));
    if let Err(e) = r {
        out.ev(json!({"op":"Panic","in":"scenario","key":e.split(": ").next().unwrap_or(""),"msg":e}));
    }
}

#[allow(clippy::too_many_arguments)]
fn scenario_inner<T: Num>(out: &mut Shards, rng: &mut Rng, tname: &str, d: u8, w: u32, seed: u64, n_items: usize, n_ops: usize,
    scale: &dyn Fn(&mut CountMinSketch<T>, u8) -> Option<Value>) {
    out.next_run(&format!("cm-{tname}"));
    let seeds = row_seeds(seed, d);
    let mk = || Cm::<T> { sk: CountMinSketch::<T>::with_seed(d, w, seed), seeds: seeds.clone() };
    let mut sks = vec![mk(), mk()];
    out.ev(json!({"op":"CNew","id":0,"d":d,"w":w}));
    out.ev(json!({"op":"CNew","id":1,"d":d,"w":w}));
    let items: Vec<u64> = (0..n_items).map(|_| rng.below(1 << 20)).collect();
    let budget = T::max_total();
    let mut used = [0u64; 2];
    for i in 0..n_ops {
        let which = if rng.chance(1, 4) { 1 } else { 0 };
        let r = rng.below(100);
        if r < 80 {
            let it = *rng.pick(&items);
            let wt = if rng.chance(1, 10) { 0 } else { 1 + rng.below(3) };
            // "non-negative weights whose total fits the counter type" (both operands together)
            if used[0] + used[1] + wt > budget {
                continue;
            }
            used[which] += wt;
            let res = catch(std::panic::AssertUnwindSafe(|| sks[which].sk.update_with_weight(it, T::of(wt))));
            if let Err(e) = res {
                out.ev(json!({"op":"Panic","in":"update_with_weight","key":e.split(": ").next().unwrap_or(""),"msg":e}));
                return;
            }
            let est = sks[which].sk.estimate(it).val();
            out.ev(json!({"op":"CUpd","id":which,"x":it,"b":buckets(it, &seeds, w),"wt":wt,"est":est,"tot":sks[which].sk.total_weight().val()}));
        } else if r < 88 {
            // the merged total must fit the counter type too; later updates of either operand as well
            if used[0] + 2 * used[1] > budget {
                continue;
            }
            let other = sks[1].sk.clone();
            let res = catch(std::panic::AssertUnwindSafe(|| sks[0].sk.merge(&other)));
            if let Err(e) = res {
                out.ev(json!({"op":"Panic","in":"merge","key":e.split(": ").next().unwrap_or(""),"msg":e}));
                return;
            }
            used[0] += used[1];
            out.ev(json!({"op":"CMerge","id":0,"src":1,"tot":sks[0].sk.total_weight().val()}));
        } else if r < 94 {
            if let Some(mut ev) = scale(&mut sks[0].sk, rng.below(6) as u8) {
                ev["id"] = json!(0);
                ev["tot"] = json!(sks[0].sk.total_weight().val());
                used[0] = sks[0].sk.total_weight().val() as u64;
                out.ev(ev);
            }
        } else if r < 97 {
            // round trip
            let b = sks[which].sk.serialize();
            match CountMinSketch::<T>::deserialize_with_seed(&b, seed) {
                Ok(back) => {
                    let same = back.serialize() == b;
                    let eq = back == sks[which].sk;
                    let to = sks.len();
                    out.ev(json!({"op":"CRT","id":which,"to":to,"same":same,"eq":eq}));
                    sks.push(Cm { sk: back, seeds: seeds.clone() });
                    let probe: Vec<u64> = items.iter().take(5).copied().collect();
                    chk(out, to, &sks[to], &probe, d, w);
                }
                Err(e) => {
                    out.ev(json!({"op":"Panic","in":"deserialize-own-image","key":"Err","msg":format!("{e:?}")}));
                    return;
                }
            }
        }
        if (i + 1) % 40 == 0 || i + 1 == n_ops {
            let mut probe = items.clone();
            probe.push((1 << 21) + rng.below(1000)); // never seen
            probe.push((1 << 21) + 5000 + rng.below(1000));
            chk(out, 0, &sks[0], &probe, d, w);
            chk(out, 1, &sks[1], &probe, d, w);
        }
    }
}

/// decay factors num/den for which trunc(c as f64 * (num/den) as f64) = floor(c*num/den) for every
/// count a run can reach: a fact about f64 arithmetic checked here, so that the specification's
/// exact rational semantics is what the documented formula yields.
fn decay_ok(num: u64, den: u64, max_c: u64) -> bool {
    let d = num as f64 / den as f64;
    (0..=max_c).all(|c| ((c as f64) * d).trunc() as u64 == c * num / den)
}

fn unsigned_scale<T: Num + UnsignedCountMinValue>() -> impl Fn(&mut CountMinSketch<T>, u8) -> Option<Value> {
    |sk, pick| {
        let max_c = T::max_total().min(1 << 20);
        match pick {
            0 | 1 => {
                sk.halve();
                Some(json!({"op":"CHalve"}))
            }
            _ => {
                let (num, den) = [(1u64, 2u64), (3, 4), (9, 10), (2, 3), (7, 10), (99, 100)][pick as usize];
                if !decay_ok(num, den, max_c) {
                    return None;
                }
                sk.decay(num as f64 / den as f64);
                Some(json!({"op":"CDecay","num":num,"den":den}))
            }
        }
    }
}

fn no_scale<T: Num>() -> impl Fn(&mut CountMinSketch<T>, u8) -> Option<Value> {
    |_, _| None
}

/// 64-bit quantity as four 16-bit limbs, least significant first (Wide.tla)
fn limbs(x: u64) -> Value {
    json!([x & 0xffff, (x >> 16) & 0xffff, (x >> 32) & 0xffff, (x >> 48) & 0xffff])
}

pub trait WideNum: Num {
    fn raw(self) -> u64;
    fn from_raw(x: u64) -> Self;
    fn top() -> u128;
    fn halve(sk: &mut CountMinSketch<Self>) -> bool;
    fn decay(sk: &mut CountMinSketch<Self>, d: f64) -> bool;
}
impl WideNum for u64 {
    fn decay(sk: &mut CountMinSketch<Self>, d: f64) -> bool { sk.decay(d); true }
    fn raw(self) -> u64 { self }
    fn from_raw(x: u64) -> Self { x }
    fn top() -> u128 { u64::MAX as u128 }
    fn halve(sk: &mut CountMinSketch<Self>) -> bool { sk.halve(); true }
}
impl WideNum for i64 {
    fn raw(self) -> u64 { self as u64 }
    fn from_raw(x: u64) -> Self { x as i64 }
    fn top() -> u128 { i64::MAX as u128 }
    fn halve(_sk: &mut CountMinSketch<Self>) -> bool { false }
    fn decay(_sk: &mut CountMinSketch<Self>, _d: f64) -> bool { false }
}

fn wide_chk<T: WideNum>(out: &mut Shards, id: usize, sk: &CountMinSketch<T>, seeds: &[u64], items: &[u64], w: u32) {
    let bytes = sk.serialize();
    let rd = |i: usize| u64::from_le_bytes(bytes[i..i + 8].try_into().unwrap());
    let table: Vec<Value> = if bytes.len() <= 16 { vec![] } else { (0..(bytes.len() - 24) / 8).map(|i| limbs(rd(24 + 8 * i))).collect() };
    if table.is_empty() {
        return;
    }
    let q: Vec<Value> = items.iter().map(|&it| {
        json!({"x": it, "b": buckets(it, seeds, w), "est": limbs(sk.estimate(it).raw()),
               "lb": limbs(sk.lower_bound(it).raw()), "ub": limbs(sk.upper_bound(it).raw())})
    }).collect();
    let mut e = json!({"op":"WChk","id":id,"table":table,"tot":limbs(sk.total_weight().raw()),"q":q});
    if bytes.len() <= 1200 {
        e["img"] = json!(bytes);
        e["sh"] = json!(refhash::seed_hash(sk.seed()).to_le_bytes().to_vec());
    }
    out.ev(e);
}

/// u64 / i64 counters far above 2^32 (weights around 2^53 .. 2^62): exact 64-bit arithmetic of
/// update, merge and halve
fn wide_scenario<T: WideNum>(out: &mut Shards, rng: &mut Rng, tname: &str, d: u8, w: u32, n_ops: usize) {
    let r = catch(std::panic::AssertUnwindSafe(|| wide_scenario_inner::<T>(&mut *out, &mut *rng, tname, d, w, n_ops)));
    if let Err(e) = r {
        out.ev(json!({"op":"Panic","in":"scenario","key":e.split(": ").next().unwrap_or(""),"msg":e}));
    }
}

fn wide_scenario_inner<T: WideNum>(out: &mut Shards, rng: &mut Rng, tname: &str, d: u8, w: u32, n_ops: usize) {
    out.next_run(&format!("cm-wide-{tname}"));
    let seed = 9001u64;
    let seeds = row_seeds(seed, d);
    let mut sks = vec![CountMinSketch::<T>::with_seed(d, w, seed), CountMinSketch::<T>::with_seed(d, w, seed)];
    out.ev(json!({"op":"WNew","id":0,"d":d,"w":w}));
    out.ev(json!({"op":"WNew","id":1,"d":d,"w":w}));
    let items: Vec<u64> = (0..6).map(|_| rng.below(1 << 20)).collect();
    let mut used = [0u128; 2];
    // exact weight of every item in each sketch (scaled as the sketch is scaled)
    let mut truth: [std::collections::BTreeMap<u64, u64>; 2] = [Default::default(), Default::default()];
    for i in 0..n_ops {
        let which = if rng.chance(1, 4) { 1 } else { 0 };
        let r = rng.below(100);
        if r < 70 {
            let it = *rng.pick(&items);
            let wt: u64 = match rng.below(8) {
                0 => 1,
                1 => 3,
                2 => (1 << 53) + 1,
                3 => (1 << 54) + 2 + rng.below(4),
                4 => (1 << 60) + rng.below(1 << 20),
                5 => (1 << 32) + rng.below(1 << 16),
                6 => (1u64 << 62) - 1 - rng.below(1000),
                _ => rng.below(1 << 40),
            };
            // "non-negative weights whose total fits the counter type" (both operands together)
            if used[0] + used[1] + wt as u128 > T::top() {
                continue;
            }
            used[which] += wt as u128;
            *truth[which].entry(it).or_insert(0) += wt;
            let res = catch(std::panic::AssertUnwindSafe(|| sks[which].update_with_weight(it, T::from_raw(wt))));
            if let Err(e) = res {
                out.ev(json!({"op":"Panic","in":"update_with_weight","key":e.split(": ").next().unwrap_or(""),"msg":e}));
                return;
            }
            out.ev(json!({"op":"WUpd","id":which,"x":it,"b":buckets(it, &seeds, w),"wt":limbs(wt),
                "est":limbs(sks[which].estimate(it).raw()),"tot":limbs(sks[which].total_weight().raw())}));
        } else if r < 82 {
            if used[0] + 2 * used[1] > T::top() {
                continue;
            }
            let other = sks[1].clone();
            let res = catch(std::panic::AssertUnwindSafe(|| sks[0].merge(&other)));
            if let Err(e) = res {
                out.ev(json!({"op":"Panic","in":"merge","key":e.split(": ").next().unwrap_or(""),"msg":e}));
                return;
            }
            used[0] += used[1];
            let t1 = truth[1].clone();
            for (k, v) in t1 {
                *truth[0].entry(k).or_insert(0) += v;
            }
            out.ev(json!({"op":"WMerge","id":0,"src":1,"tot":limbs(sks[0].total_weight().raw())}));
        } else if r < 94 {
            if T::halve(&mut sks[which]) {
                used[which] = sks[which].total_weight().raw() as u128;
                truth[which].values_mut().for_each(|v| *v /= 2);
                out.ev(json!({"op":"WHalve","id":which,"tot":limbs(sks[which].total_weight().raw())}));
            }
        } else if r < 99 {
            // decay: every counter, the total (and every exact weight) goes through the documented map
            // v -> trunc(v as f64 * d); the values it is applied to and their images are logged
            let d = *rng.pick(&[0.9f64, 0.5, 1.0, 0.999, 0.25]);
            let f = |v: u64| ((v as f64) * d).trunc() as u64;
            let before = sks[which].serialize();
            let mut dom: std::collections::BTreeSet<u64> = truth[which].values().copied().collect();
            dom.insert(sks[which].total_weight().raw());
            if before.len() > 24 {
                for i in 0..(before.len() - 24) / 8 {
                    dom.insert(u64::from_le_bytes(before[24 + 8 * i..32 + 8 * i].try_into().unwrap()));
                }
            }
            if T::decay(&mut sks[which], d) {
                used[which] = sks[which].total_weight().raw() as u128;
                truth[which].values_mut().for_each(|v| *v = f(*v));
                out.ev(json!({"op":"WDecay","id":which,"d":format!("{d}"),"tot":limbs(sks[which].total_weight().raw()),
                    "f":dom.iter().map(|&v| json!([limbs(v), limbs(f(v))])).collect::<Vec<_>>()}));
            }
        }
        if (i + 1) % 10 == 0 || i + 1 == n_ops {
            wide_chk(out, 0, &sks[0], &seeds, &items, w);
            wide_chk(out, 1, &sks[1], &seeds, &items, w);
        }
    }
}

/// one item driven to exactly the largest value the counter type holds (still "within range")
fn saturate<T: Num>(out: &mut Shards, tname: &str, max: u64) {
    let r = catch(std::panic::AssertUnwindSafe(|| {
        out.next_run(&format!("cm-saturate-{tname}"));
        let (d, w, seed) = (3u8, 5u32, 9001u64);
        let seeds = row_seeds(seed, d);
        let c = Cm::<T> { sk: CountMinSketch::<T>::with_seed(d, w, seed), seeds: seeds.clone() };
        let mut c = c;
        out.ev(json!({"op":"CNew","id":0,"d":d,"w":w}));
        let it = 77u64;
        let step = |c: &mut Cm<T>, out: &mut Shards, wt: u64| {
            c.sk.update_with_weight(it, T::of(wt));
            out.ev(json!({"op":"CUpd","id":0,"x":it,"b":buckets(it, &seeds, w),"wt":wt,"est":c.sk.estimate(it).val(),"tot":c.sk.total_weight().val()}));
        };
        step(&mut c, out, max - 55);
        for _ in 0..55 {
            step(&mut c, out, 1);
        }
        chk(out, 0, &c, &[it, 78], d, w);
    }));
    if let Err(e) = r {
        out.ev(json!({"op":"Panic","in":"scenario","key":e.split(": ").next().unwrap_or(""),"msg":e}));
    }
}

/// scaling down to nothing, and merges whose totals sum exactly to the largest value of the type
fn edge_scaling<T: Num + UnsignedCountMinValue>(out: &mut Shards, tname: &str, max: u64) {
    let r = catch(std::panic::AssertUnwindSafe(|| {
        out.next_run(&format!("cm-edge-{tname}"));
        let (d, w, seed) = (2u8, 5u32, 9001u64);
        let seeds = row_seeds(seed, d);
        let mk = || Cm::<T> { sk: CountMinSketch::<T>::with_seed(d, w, seed), seeds: seeds.clone() };
        let (mut a, mut b) = (mk(), mk());
        out.ev(json!({"op":"CNew","id":0,"d":d,"w":w}));
        out.ev(json!({"op":"CNew","id":1,"d":d,"w":w}));
        let upd = |c: &mut Cm<T>, out: &mut Shards, id: usize, it: u64, wt: u64| {
            c.sk.update_with_weight(it, T::of(wt));
            out.ev(json!({"op":"CUpd","id":id,"x":it,"b":buckets(it, &seeds, w),"wt":wt,"est":c.sk.estimate(it).val(),"tot":c.sk.total_weight().val()}));
        };
        // total 1, halved: everything is zero afterwards
        upd(&mut a, out, 0, 7, 1);
        a.sk.halve();
        out.ev(json!({"op":"CHalve","id":0,"tot":a.sk.total_weight().val()}));
        chk(out, 0, &a, &[7, 8], d, w);
        upd(&mut a, out, 0, 7, 2);
        chk(out, 0, &a, &[7, 8], d, w);
        // total 7 decayed by 1/8
        upd(&mut a, out, 0, 9, 5);
        a.sk.decay(0.125);
        out.ev(json!({"op":"CDecay","id":0,"num":1,"den":8,"tot":a.sk.total_weight().val()}));
        chk(out, 0, &a, &[7, 9], d, w);
        // totals that sum exactly to the type's maximum
        let have = a.sk.total_weight().val() as u64;
        upd(&mut a, out, 0, 7, max - 10 - have);
        upd(&mut b, out, 1, 9, 10);
        let other = b.sk.clone();
        a.sk.merge(&other);
        out.ev(json!({"op":"CMerge","id":0,"src":1,"tot":a.sk.total_weight().val()}));
        chk(out, 0, &a, &[7, 9], d, w);
    }));
    if let Err(e) = r {
        out.ev(json!({"op":"Panic","in":"scenario","key":e.split(": ").next().unwrap_or(""),"msg":e}));
    }
}

/// merges whose receiver holds nothing: fresh, decoded from an empty image, or scaled down to nothing; and
/// merges of an empty argument. The receiver must take over table and total like any other merge.
fn merge_into_empty<T: Num + UnsignedCountMinValue>(out: &mut Shards, tname: &str) {
    let r = catch(std::panic::AssertUnwindSafe(|| {
        out.next_run(&format!("cm-merge-empty-{tname}"));
        let (d, w, seed) = (3u8, 7u32, 9001u64);
        let seeds = row_seeds(seed, d);
        let mk = || Cm::<T> { sk: CountMinSketch::<T>::with_seed(d, w, seed), seeds: seeds.clone() };
        let items = [3u64, 4, 5, 6, 99];
        let upd = |c: &mut Cm<T>, out: &mut Shards, id: usize, it: u64, wt: u64| {
            c.sk.update_with_weight(it, T::of(wt));
            out.ev(json!({"op":"CUpd","id":id,"x":it,"b":buckets(it, &seeds, w),"wt":wt,"est":c.sk.estimate(it).val(),"tot":c.sk.total_weight().val()}));
        };
        let merge = |a: &mut Cm<T>, b: &Cm<T>, out: &mut Shards, ia: usize, ib: usize| {
            let other = b.sk.clone();
            a.sk.merge(&other);
            out.ev(json!({"op":"CMerge","id":ia,"src":ib,"tot":a.sk.total_weight().val()}));
        };
        let mut cs: Vec<Cm<T>> = (0..5).map(|_| mk()).collect();
        for id in 0..5 {
            out.ev(json!({"op":"CNew","id":id,"d":d,"w":w}));
        }
        upd(&mut cs[1], out, 1, 3, 4);
        upd(&mut cs[1], out, 1, 4, 2);
        upd(&mut cs[2], out, 2, 5, 3);
        upd(&mut cs[2], out, 2, 3, 1);
        // fresh receiver, then a second merge into it, then an empty argument
        let (b1, b2, e4) = (cs[1].clone(), cs[2].clone(), cs[4].clone());
        merge(&mut cs[0], &b1, out, 0, 1);
        chk(out, 0, &cs[0], &items, d, w);
        merge(&mut cs[0], &b2, out, 0, 2);
        chk(out, 0, &cs[0], &items, d, w);
        merge(&mut cs[0], &e4, out, 0, 4);
        chk(out, 0, &cs[0], &items, d, w);
        // receiver scaled down to nothing
        upd(&mut cs[3], out, 3, 6, 1);
        cs[3].sk.halve();
        out.ev(json!({"op":"CHalve","id":3,"tot":cs[3].sk.total_weight().val()}));
        merge(&mut cs[3], &b1, out, 3, 1);
        chk(out, 3, &cs[3], &items, d, w);
        merge(&mut cs[3], &b2, out, 3, 2);
        chk(out, 3, &cs[3], &items, d, w);
        // empty receiver and empty argument
        let e = cs[4].clone();
        merge(&mut cs[4], &e, out, 4, 4);
        chk(out, 4, &cs[4], &items, d, w);
        merge(&mut cs[4], &b2, out, 4, 2);
        chk(out, 4, &cs[4], &items, d, w);
    }));
    if let Err(e) = r {
        out.ev(json!({"op":"Panic","in":"scenario","key":e.split(": ").next().unwrap_or(""),"msg":e}));
    }
}

/// signed counter types under weights of both signs: the total counts |w|, the counters w; negative counters
/// are written sign-extended to 8 bytes
fn signed_negative<T: Num>(out: &mut Shards, rng: &mut Rng, tname: &str, budget: u64) {
    let r = catch(std::panic::AssertUnwindSafe(|| {
        out.next_run(&format!("cm-signed-{tname}"));
        let (d, w, seed) = (3u8, 5u32, 9001u64);
        let seeds = row_seeds(seed, d);
        let mut sk = CountMinSketch::<T>::with_seed(d, w, seed);
        out.ev(json!({"op":"CNew","id":0,"d":d,"w":w}));
        let mut used = 0u64;
        let chk = |sk: &CountMinSketch<T>, out: &mut Shards| {
            let bytes = sk.serialize();
            let (tot, mut table) = decode(&bytes);
            if table.is_empty() {
                table = vec![0; d as usize * w as usize];
            }
            let rt_same = CountMinSketch::<T>::deserialize_with_seed(&bytes, seed).map(|b| b.serialize() == bytes).unwrap_or(false);
            out.ev(json!({"op":"CChkS","id":0,"table":table,"tot":if bytes.len() <= 16 { 0 } else { tot },"len":bytes.len(),
                "img":bytes,"sh":refhash::seed_hash(seed).to_le_bytes().to_vec(),"rt_same":rt_same}));
        };
        chk(&sk, out);
        for i in 0..40u64 {
            let it = rng.below(12);
            let mag = 1 + rng.below(3);
            if used + mag > budget {
                break;
            }
            used += mag;
            let wt: i64 = if i % 3 == 0 { mag as i64 } else { -(mag as i64) };
            sk.update_with_weight(it, T::of(wt as u64));
            out.ev(json!({"op":"CUpdS","id":0,"x":it,"b":buckets(it, &seeds, w),"wt":wt,"tot":sk.total_weight().val()}));
            if i % 5 == 4 {
                chk(&sk, out);
            }
        }
        chk(&sk, out);
    }));
    if let Err(e) = r {
        out.ev(json!({"op":"Panic","in":"scenario","key":e.split(": ").next().unwrap_or(""),"msg":e}));
    }
}

/// the same for the 64-bit types, on limbs
fn saturate_wide<T: WideNum>(out: &mut Shards, tname: &str) {
    let r = catch(std::panic::AssertUnwindSafe(|| {
        out.next_run(&format!("cm-wide-saturate-{tname}"));
        let (d, w, seed) = (2u8, 5u32, 9001u64);
        let seeds = row_seeds(seed, d);
        let mut sk = CountMinSketch::<T>::with_seed(d, w, seed);
        out.ev(json!({"op":"WNew","id":0,"d":d,"w":w}));
        let it = 77u64;
        let top = T::top() as u64;
        for wt in [top - 3, 1, 1, 1] {
            sk.update_with_weight(it, T::from_raw(wt));
            out.ev(json!({"op":"WUpd","id":0,"x":it,"b":buckets(it, &seeds, w),"wt":limbs(wt),
                "est":limbs(sk.estimate(it).raw()),"tot":limbs(sk.total_weight().raw())}));
        }
        wide_chk(out, 0, &sk, &seeds, &[it, 78], w);
    }));
    if let Err(e) = r {
        out.ev(json!({"op":"Panic","in":"scenario","key":e.split(": ").next().unwrap_or(""),"msg":e}));
    }
}

/// merge() offered sketches of other shapes / seeds, including ones with the same number of cells
fn merge_refusals(out: &mut Shards) {
    out.next_run("cm-merge-refusal");
    let cases: [((u8, u32, u64), (u8, u32, u64)); 8] = [
        ((4, 16, 9001), (8, 8, 9001)), ((2, 12, 9001), (3, 8, 9001)), ((3, 8, 9001), (4, 6, 9001)),
        ((3, 64, 9001), (2, 64, 9001)), ((3, 64, 9001), (3, 63, 9001)), ((3, 8, 9001), (3, 8, 42)),
        ((3, 8, 42), (3, 8, 42)), ((1, 3, 9001), (1, 3, 9001)),
    ];
    for (a, b) in cases {
        let mut x = CountMinSketch::<u64>::with_seed(a.0, a.1, a.2);
        let mut y = CountMinSketch::<u64>::with_seed(b.0, b.1, b.2);
        x.update_with_weight(1u64, 5);
        y.update_with_weight(2u64, 7);
        let before = x.serialize();
        let r = catch(std::panic::AssertUnwindSafe(|| { x.merge(&y); x.total_weight() }));
        let accepted = match r {
            Ok(t) => t == 12,
            Err(_) => false,
        };
        // a refused merge leaves the receiver as it was
        let untouched = accepted || x.serialize() == before;
        out.ev(json!({"op":"CMergeTry","a":[a.0, a.1, a.2 % 100000],"b":[b.0, b.1, b.2 % 100000],"accepted":accepted}));
        if !untouched {
            out.ev(json!({"op":"Panic","in":"merge-refused-but-modified","key":"state","msg":"receiver changed by a refused merge"}));
        }
    }
}

pub fn record(args: &Args) {
    let seed = args.u64("seed", 1);
    let mut rng = Rng::new(seed ^ 0xC0C0);
    let thorough = args.thorough();
    let mut out = Shards::create(&args.str("out", "cm"), args.u64("shards", 8) as usize);
    let reps = if thorough { 5 } else { 1 };
    let shapes: Vec<(u8, u32)> = vec![(1, 3), (2, 3), (3, 5), (4, 7), (3, 8), (5, 16), (8, 31), (2, 64), (3, 127), (4, 512)];
    for _ in 0..reps {
        for &(d, w) in &shapes {
            let sseed = *rng.pick(&[9001u64, 0, (1 << 63) + 12345, 42]);
            if refhash::seed_hash(sseed) == 0 {
                continue;
            }
            let n_items = (w as usize * 2).clamp(6, 120);
            let n_ops = if thorough { 500 } else { 220 };
            let t = rng.below(8);
            match t {
                0 => scenario::<u8>(&mut out, &mut rng, "u8", d, w, sseed, n_items, n_ops, &unsigned_scale::<u8>()),
                1 => scenario::<u16>(&mut out, &mut rng, "u16", d, w, sseed, n_items, n_ops, &unsigned_scale::<u16>()),
                2 => scenario::<u32>(&mut out, &mut rng, "u32", d, w, sseed, n_items, n_ops, &unsigned_scale::<u32>()),
                3 => scenario::<u64>(&mut out, &mut rng, "u64", d, w, sseed, n_items, n_ops, &unsigned_scale::<u64>()),
                4 => scenario::<i8>(&mut out, &mut rng, "i8", d, w, sseed, n_items, n_ops, &no_scale::<i8>()),
                5 => scenario::<i16>(&mut out, &mut rng, "i16", d, w, sseed, n_items, n_ops, &no_scale::<i16>()),
                6 => scenario::<i32>(&mut out, &mut rng, "i32", d, w, sseed, n_items, n_ops, &no_scale::<i32>()),
                _ => scenario::<i64>(&mut out, &mut rng, "i64", d, w, sseed, n_items, n_ops, &no_scale::<i64>()),
            }
            // every shape also with the most used type and scaling
            scenario::<u64>(&mut out, &mut rng, "u64", d, w, sseed, n_items, n_ops, &unsigned_scale::<u64>());
        }
        // narrow types on every shape class
        scenario::<u8>(&mut out, &mut rng, "u8", 3, 5, 9001, 8, 200, &unsigned_scale::<u8>());
        scenario::<i8>(&mut out, &mut rng, "i8", 2, 7, 9001, 8, 200, &no_scale::<i8>());
        scenario::<u16>(&mut out, &mut rng, "u16", 3, 127, 9001, 100, 300, &unsigned_scale::<u16>());
        scenario::<i16>(&mut out, &mut rng, "i16", 1, 3, 9001, 6, 200, &no_scale::<i16>());
    }
    for rep in 0..reps {
        for &(d, w) in &[(1u8, 3u32), (2, 5), (3, 8)] {
            wide_scenario::<u64>(&mut out, &mut rng, "u64", d, w, if thorough { 160 } else { 80 });
            if rep == 0 {
                wide_scenario::<i64>(&mut out, &mut rng, "i64", d, w, 60);
            }
        }
    }
    saturate::<u8>(&mut out, "u8", u8::MAX as u64);
    saturate::<i8>(&mut out, "i8", i8::MAX as u64);
    saturate::<u16>(&mut out, "u16", u16::MAX as u64);
    saturate::<i16>(&mut out, "i16", i16::MAX as u64);
    edge_scaling::<u8>(&mut out, "u8", u8::MAX as u64);
    edge_scaling::<u16>(&mut out, "u16", u16::MAX as u64);
    edge_scaling::<u32>(&mut out, "u32", 1 << 30);
    signed_negative::<i8>(&mut out, &mut rng, "i8", 40);
    signed_negative::<i16>(&mut out, &mut rng, "i16", 100);
    signed_negative::<i32>(&mut out, &mut rng, "i32", 100);
    signed_negative::<i64>(&mut out, &mut rng, "i64", 100);
    merge_into_empty::<u8>(&mut out, "u8");
    merge_into_empty::<u32>(&mut out, "u32");
    merge_into_empty::<u64>(&mut out, "u64");
    saturate_wide::<u64>(&mut out, "u64");
    saturate_wide::<i64>(&mut out, "i64");
    merge_refusals(&mut out);
    let (runs, events) = out.finish();
    println!("{}", json!({"runs":runs,"events":events}));
}
