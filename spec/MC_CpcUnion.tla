----------------------------- MODULE MC_CpcUnion -----------------------------
(* Exhaustive toy instance of the CPC union: inputs of lgK 1 and 2 in every    *)
(* flavor class (empty, sparse, windowed at several offsets), fed in every     *)
(* order and with repetition into unions of lgK 1 and 2; to_sketch after       *)
(* every step.                                                                 *)
EXTENDS Cpc

CONSTANTS ULgK, MaxSteps

Mk(lgk, cs) == LET RECURSIVE F(_, _)
                   F(s, r) == IF r = <<>> THEN s ELSE F(RowCol(s, Head(r)[1], Head(r)[2]), Tail(r))
               IN F(NewCpc(lgk), cs)

Cat == { Mk(2, <<>>),                                                   \* empty
         Mk(2, << <<0, 1>> >>), Mk(2, << <<3, 4>>, <<1, 0>> >>),         \* sparse, lgK 2
         Mk(1, << <<1, 3>> >>),                                          \* sparse, lgK 1
         Mk(2, << <<0, 0>>, <<1, 0>>, <<2, 1>>, <<3, 4>> >>),            \* windowed, lgK 2
         Mk(1, << <<0, 0>>, <<1, 1>>, <<0, 4>> >>),                      \* windowed, lgK 1
         Mk(2, << <<0,0>>, <<1,0>>, <<2,0>>, <<3,0>>, <<0,1>>, <<1,1>>, <<2,1>>, <<3,1>>,
                  <<0,2>>, <<1,2>>, <<2,2>>, <<3,3>>, <<0,4>>, <<1,3>>, <<2,4>> >>) }   \* slid window, lgK 2

VARIABLES u, glg, gm, steps
vars == <<u, glg, gm, steps>>

Init == u = NewUnion(ULgK) /\ glg = ULgK /\ gm = [i \in 0..(P2(ULgK) - 1) |-> {}] /\ steps = 0

Feed(src) ==
  /\ u' = UnionUpdate(u, src)
  /\ IF src.c = 0 THEN UNCHANGED <<glg, gm>>
     ELSE LET nl == IF src.lgk < glg THEN src.lgk ELSE glg IN
          /\ glg' = nl
          /\ gm' = OrInto(Fold(gm, glg, nl), nl, Matrix(src), src.lgk)

Next == steps < MaxSteps /\ steps' = steps + 1 /\ \E src \in Cat : Feed(src)
Spec == Init /\ [][Next]_vars

\* C06
Inv ==
  /\ u.lgk = glg
  /\ UnionMatrix(u) = gm
  /\ LET r == ToSketch(u) IN
     /\ r.lgk = glg /\ Matrix(r) = gm /\ r.c = CountBits(gm)
     /\ CountOK(r) /\ OffsetOK(r) /\ FicSound(r) /\ ShapeOK(r)
     /\ r.merged
  /\ \A s \in Cat : CountOK(s) /\ OffsetOK(s) /\ ShapeOK(s)
===============================================================================
