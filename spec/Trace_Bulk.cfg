CONSTANTS Check = {"C17", "C18"}
SPECIFICATION TSpec
POSTCONDITION Accepted
CHECK_DEADLOCK FALSE
