--------------------------------- MODULE Hll ---------------------------------
(* HLL sketch of datasketches-rust (hll/sketch.rs, list.rs, hash_set.rs,      *)
(* array4.rs + aux_map.rs, array6.rs, array8.rs), as functions on a state     *)
(* record so that one trace may hold many sketches.                           *)
(*                                                                            *)
(* A coupon is <<slot26, val>> (the code packs it as val << 26 | slot26; TLC  *)
(* integers are 32-bit, so the pair is kept split).  NoC is the empty cell.   *)
(*                                                                            *)
(* Implementation-shaped layer: list in storage order, open-addressed coupon  *)
(* table with its probe sequence, 4-bit cells + cur_min + exception map for   *)
(* Hll4, plain cells for Hll6/Hll8, out-of-order flag, "hip > 0" ghost.       *)
(* Abstract layer (what C02 talks about): the set of coupons offered, and     *)
(* A_Reg[s] = max value over the coupons whose slot folds to s.               *)
EXTENDS Integers, Sequences, FiniteSets, TLC, SequencesExt

CONSTANTS ListCap,    \* capacity of the coupon list (8)
          InitSetLg,  \* lg size of the first coupon table (5)
          SetLgOff,   \* the table may grow up to lgK - SetLgOff (3)
          AuxToken,   \* 4-bit cell value that marks an exception (15)
          MaxVal      \* largest register value (63)

NoC == <<0, 0>>
Pow2(n) == 2 ^ n
KOf(st) == Pow2(st.lgk)
\* lgK below this goes from list straight to the register array
DirectLgK == InitSetLg + SetLgOff

MaxOf(S) == CHOOSE x \in S : \A y \in S : y <= x
MinOf(S) == CHOOSE x \in S : \A y \in S : x <= y
Odd(x) == IF x % 2 = 0 THEN x + 1 ELSE x      \* x | 1

(* ------------------------------------------------------------------ states *)
EmptyArrFields ==
  [cells |-> <<>>, curMin |-> 0, nacm |-> 0, aux |-> {}, ooo |-> FALSE, hipPos |-> FALSE]

NewSketch(lgk, type) ==
  [lgk |-> lgk, type |-> type, mode |-> "list",
   list |-> <<>>, listCap |-> ListCap,
   setLg |-> 0, tab |-> <<>>, cnt |-> 0] @@ EmptyArrFields

NewArray(lgk, type) ==
  [lgk |-> lgk, type |-> type, mode |-> "arr",
   list |-> <<>>, listCap |-> 0, setLg |-> 0, tab |-> <<>>, cnt |-> 0,
   cells |-> [s \in 0..(Pow2(lgk) - 1) |-> 0], curMin |-> 0, nacm |-> Pow2(lgk),
   aux |-> {}, ooo |-> FALSE, hipPos |-> FALSE]

(* --------------------------------------------------------------- registers *)
AuxGet(aux, s) == (CHOOSE e \in aux : e[1] = s)[2]
InAux(aux, s) == \E e \in aux : e[1] = s

\* decoded register value
Value(st, s) ==
  IF st.type = 4 /\ st.cells[s] = AuxToken
  THEN (IF InAux(st.aux, s) THEN AuxGet(st.aux, s) ELSE st.curMin)  \* code's fallback
  ELSE st.cells[s] + st.curMin

Regs(st) == [s \in 0..(KOf(st) - 1) |-> Value(st, s)]

(* One cur_min shift of Array4::shift_to_bigger_cur_min. *)
Shift4(st) ==
  LET k  == KOf(st)
      cm == st.curMin + 1
      dec == [s \in 0..(k - 1) |->
                IF st.cells[s] < AuxToken THEN st.cells[s] - 1 ELSE AuxToken]
      leave == {e \in st.aux : e[2] - cm < AuxToken}       \* exceptions that fit again
      cells2 == [s \in 0..(k - 1) |->
                   IF InAux(leave, s) THEN AuxGet(leave, s) - cm ELSE dec[s]]
  IN [st EXCEPT !.cells = cells2, !.curMin = cm, !.aux = st.aux \ leave,
                !.nacm = Cardinality({s \in 0..(k - 1) : st.cells[s] < AuxToken /\ dec[s] = 0})]

RECURSIVE ShiftLoop(_)
ShiftLoop(st) == IF st.nacm = 0 /\ st.curMin < MaxVal THEN ShiftLoop(Shift4(st)) ELSE st

\* the HIP accumulator grows on every register change of an in-order sketch
HipStep(st) == IF st.ooo THEN st ELSE [st EXCEPT !.hipPos = TRUE]

Arr4Update(st, c) ==
  LET k == KOf(st)  s == c[1] % k  v == c[2]
      raw == st.cells[s]
      lb  == raw + st.curMin
  IN IF v <= st.curMin \/ v <= lb THEN st
     ELSE LET old == IF raw < AuxToken THEN lb ELSE AuxGet(st.aux, s) IN
       IF v <= old THEN st
       ELSE
         LET sh == v - st.curMin
             st1 == IF raw = AuxToken
                    THEN [st EXCEPT !.aux = (@ \ {<<s, old>>}) \cup {<<s, v>>}]     \* case 1: replace
                    ELSE IF sh >= AuxToken
                    THEN [st EXCEPT !.cells[s] = AuxToken, !.aux = @ \cup {<<s, v>>}] \* case 3: new exception
                    ELSE [st EXCEPT !.cells[s] = sh]                                  \* case 4
             st2 == HipStep(st1)
         IN IF old = st.curMin THEN ShiftLoop([st2 EXCEPT !.nacm = @ - 1]) ELSE st2

Arr68Update(st, c) ==
  LET k == KOf(st)  s == c[1] % k  v == c[2]  old == st.cells[s]
  IN IF v > old
     THEN HipStep([st EXCEPT !.cells[s] = v, !.nacm = IF old = 0 THEN @ - 1 ELSE @])
     ELSE st

ArrUpdate(st, c) == IF st.type = 4 THEN Arr4Update(st, c) ELSE Arr68Update(st, c)

(* ------------------------------------------------------------ coupon table *)
\* HashSet::update: probe = coupon & mask, stride = ((slot26 >> lg) | 1)
RECURSIVE Probe(_, _, _, _, _)
Probe(tab, size, c, p, stride) ==
  IF tab[p] = NoC THEN <<"empty", p>>
  ELSE IF tab[p] = c THEN <<"found", p>>
  ELSE Probe(tab, size, c, (p + stride) % size, stride)

TabFind(tab, lg, c) ==
  LET size == Pow2(lg) IN Probe(tab, size, c, c[1] % size, Odd(c[1] \div size) % size)

TabInsert(tab, lg, c) ==
  LET r == TabFind(tab, lg, c) IN IF r[1] = "empty" THEN [tab EXCEPT ![r[2]] = c] ELSE tab

EmptyTab(lg) == [p \in 0..(Pow2(lg) - 1) |-> NoC]

\* coupons of a table / list in storage order (what Container::iter yields)
TabSeq(tab, lg) == SelectSeq([i \in 1..Pow2(lg) |-> tab[i - 1]], LAMBDA x : x # NoC)

InsertAll(tab, lg, cs) == FoldLeft(LAMBDA acc, c : TabInsert(acc, lg, c), tab, cs)

UpdateAll(st, cs) == FoldLeft(LAMBDA acc, c : ArrUpdate(acc, c), st, cs)

RangeOf(f) == {f[x] : x \in DOMAIN f}

(* -------------------------------------------------------------- promotions *)
\* promote_container_to_array: replay every coupon in storage order, then the HIP
\* accumulator is overwritten by the coupon-mode estimate (> 0 for a non-empty container)
PromoteToArr(st, cs) ==
  [UpdateAll(NewArray(st.lgk, st.type), cs) EXCEPT !.hipPos = (cs # <<>>)]

PromoteListToSet(st) ==
  [st EXCEPT !.mode = "set", !.setLg = InitSetLg,
             !.tab = InsertAll(EmptyTab(InitSetLg), InitSetLg, st.list),
             !.cnt = Len(st.list), !.list = <<>>, !.listCap = 0]

GrowSet(st) ==
  [st EXCEPT !.setLg = @ + 1,
             !.tab = InsertAll(EmptyTab(st.setLg + 1), st.setLg + 1, TabSeq(st.tab, st.setLg))]

ListUpdate(st, c) ==
  LET st1 == IF c \in RangeOf(st.list) \/ Len(st.list) >= st.listCap THEN st
             ELSE [st EXCEPT !.list = Append(@, c)]
  IN IF Len(st1.list) = st1.listCap     \* container.is_full()
     THEN IF st.lgk < DirectLgK THEN PromoteToArr(st1, st1.list) ELSE PromoteListToSet(st1)
     ELSE st1

SetUpdate(st, c) ==
  LET r == TabFind(st.tab, st.setLg, c)
      st1 == IF r[1] = "empty" THEN [st EXCEPT !.tab[r[2]] = c, !.cnt = @ + 1] ELSE st
  IN IF 4 * st1.cnt > 3 * Pow2(st1.setLg)
     THEN IF st1.setLg = st1.lgk - SetLgOff
          THEN PromoteToArr(st1, TabSeq(st1.tab, st1.setLg))
          ELSE GrowSet(st1)
     ELSE st1

\* HllSketch::update_with_coupon
Update(st, c) ==
  CASE st.mode = "list" -> ListUpdate(st, c)
    [] st.mode = "set"  -> SetUpdate(st, c)
    [] st.mode = "arr"  -> ArrUpdate(st, c)

(* ----------------------------------------------------------- abstract layer *)
(* ---- the estimator's two register sums, exactly ---------------------------------------------- *)
\* kxq0 = sum over registers below 32 of 2^-value, kxq1 = the same for values 32..63. Every term and
\* every partial sum is a dyadic rational that an f64 holds exactly, so the implementation's
\* incrementally maintained fields must EQUAL these sums: kxq0 * 2^31 and kxq1 * 2^63 as 64-bit
\* integers (four 16-bit limbs, Wide.tla).
W16 == INSTANCE Wide WITH B <- 65536, N <- 4
Histogram(st) ==
  FoldLeft(LAMBDA h, s : [h EXCEPT ![Value(st, s)] = @ + 1], [v \in 0..63 |-> 0],
           [i \in 1..KOf(st) |-> i - 1])
Kxq0Of(h) == W16!WSum([i \in 1..32 |-> W16!WShl(W16!WOfSmall(h[i - 1]), 31 - (i - 1))])
Kxq1Of(h) == W16!WSum([i \in 1..32 |-> W16!WShl(W16!WOfSmall(h[31 + i]), 63 - (31 + i))])
Kxq0W(st) == Kxq0Of(Histogram(st))
Kxq1W(st) == Kxq1Of(Histogram(st))

Coupons(st) ==
  CASE st.mode = "list" -> RangeOf(st.list)
    [] st.mode = "set"  -> RangeOf(st.tab) \ {NoC}
    [] st.mode = "arr"  -> {}

IsEmpty(st) ==
  CASE st.mode = "list" -> st.list = <<>>
    [] st.mode = "set"  -> st.cnt = 0
    [] st.mode = "arr"  -> st.curMin = 0 /\ st.nacm = KOf(st)

A_Reg(offered, k, s) == MaxOf({0} \cup {c[2] : c \in {d \in offered : d[1] % k = s}})

\* C02: the observable state equals the textbook model of the coupons offered
Refines(st, offered) ==
  IF st.mode = "arr"
  THEN \A s \in 0..(KOf(st) - 1) : Value(st, s) = A_Reg(offered, KOf(st), s)
  ELSE /\ Coupons(st) = offered
       /\ (st.mode = "list" => Len(st.list) = Cardinality(offered))      \* no duplicate
       /\ (st.mode = "set" => st.cnt = Cardinality(offered)
                              /\ Cardinality({p \in DOMAIN st.tab : st.tab[p] # NoC}) = st.cnt)

\* Array4 bookkeeping: cur_min is the minimum, the count is exact, a cell holds the
\* token exactly when the slot has an exception, exceptions are exactly the big values
Hll4Shape(st) ==
  (st.mode = "arr" /\ st.type = 4) =>
    LET k == KOf(st) IN
    /\ st.curMin = MinOf({Value(st, s) : s \in 0..(k - 1)})
    /\ st.nacm = Cardinality({s \in 0..(k - 1) : Value(st, s) = st.curMin})
    /\ st.nacm > 0
    /\ \A s \in 0..(k - 1) : (st.cells[s] = AuxToken) = InAux(st.aux, s)
    /\ \A e \in st.aux : e[2] - st.curMin >= AuxToken /\ e[1] \in 0..(k - 1)
    /\ \A e, f \in st.aux : e[1] = f[1] => e = f

Arr68Shape(st) ==
  (st.mode = "arr" /\ st.type # 4) =>
    /\ st.curMin = 0 /\ st.aux = {}
    /\ st.nacm = Cardinality({s \in 0..(KOf(st) - 1) : st.cells[s] = 0})

\* every stored coupon is found again by its own probe sequence; load stays <= 3/4
SetShape(st) ==
  (st.mode = "set") =>
    /\ \A p \in DOMAIN st.tab : st.tab[p] # NoC => TabFind(st.tab, st.setLg, st.tab[p]) = <<"found", p>>
    /\ 4 * st.cnt <= 3 * Pow2(st.setLg)
    /\ st.setLg <= st.lgk - SetLgOff /\ st.setLg >= InitSetLg

ListShape(st) == (st.mode = "list") => Len(st.list) < st.listCap \/ st.listCap = 0

ModeRank(m) == CASE m = "list" -> 0 [] m = "set" -> 1 [] m = "arr" -> 2

(* ------------------------------------------------------------ serialization *)
\* C18: exact image size (bytes) of the compact form this library writes
SerLen(st) ==
  CASE st.mode = "list" -> 8 + 4 * Len(st.list)
    [] st.mode = "set"  -> 12 + 4 * st.cnt
    [] st.mode = "arr"  ->
         40 + (CASE st.type = 4 -> KOf(st) \div 2 + 4 * Cardinality(st.aux)
                 [] st.type = 6 -> (3 * KOf(st)) \div 4 + 1
                 [] st.type = 8 -> KOf(st))

\* order of the packed 32-bit coupons (val << 26 | slot)
CouponLess(a, b) == a[2] < b[2] \/ (a[2] = b[2] /\ a[1] < b[1])

SortCoupons(S) == SetToSortSeq(S, CouponLess)

\* deserialize(serialize(st)): what the reader rebuilds from the compact image.
\* list: the container is sized 1 << lg_arr again; set: the sorted coupons are
\* re-inserted into a fresh table; array: cells, cur_min, counts and exceptions are
\* copied; an out-of-order image loses its (meaningless) HIP accumulator.
RoundTrip(st) ==
  CASE st.mode = "list" -> st
    [] st.mode = "set"  -> [st EXCEPT !.tab = InsertAll(EmptyTab(st.setLg), st.setLg,
                                                        SortCoupons(RangeOf(st.tab) \ {NoC}))]
    [] st.mode = "arr"  -> [st EXCEPT !.hipPos = IF st.ooo THEN FALSE ELSE @]
===============================================================================
