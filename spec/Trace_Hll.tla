------------------------------ MODULE Trace_Hll ------------------------------
(* Trace validation for HllSketch and HllUnion: every event recorded from the  *)
(* real code (public API + verif hooks) must be explained by the actions of    *)
(* Hll.tla / HllUnion.tla, with the logged state equal to the specification's. *)
(* Check \subseteq property ids selects which properties' conjuncts are        *)
(* enforced; the specification's own state always evolves by its actions.      *)
EXTENDS HllUnion, Json, IOUtils

CONSTANT Check

Rec == ndJsonDeserialize(IOEnv.TRACE)

VARIABLES l, obj, uni
tvars == <<l, obj, uni>>

Ev == Rec[l]
IsEv(op) == l <= Len(Rec) /\ Ev.op = op /\ l' = l + 1
On(p) == p \in Check

ToSeq0(f) == [i \in 1..Cardinality(DOMAIN f) |-> f[i - 1]]

SortBySlot(S) == SetToSortSeq(S, LAMBDA x, y : x[1] < y[1])

\* full projection, as logged by the harness from HllSketch::verif_state()
Full(st) ==
  [m |-> st.mode, lgk |-> st.lgk, t |-> st.type, cap |-> st.listCap, list |-> st.list,
   lga |-> st.setLg, tab |-> ToSeq0(st.tab), cnt |-> st.cnt, cells |-> ToSeq0(st.cells),
   regs |-> (IF st.mode = "arr" THEN ToSeq0(Regs(st)) ELSE <<>>),
   cm |-> st.curMin, n |-> st.nacm, aux |-> SortBySlot(st.aux), ooo |-> st.ooo,
   hp |-> (st.mode = "arr" /\ ~st.ooo /\ st.hipPos)]

\* cheap scalars logged after every update
Sc(st, slot) ==
  [m |-> st.mode,
   n |-> (CASE st.mode = "list" -> Len(st.list) [] st.mode = "set" -> st.cnt [] OTHER -> st.nacm),
   cm |-> st.curMin, na |-> Cardinality(st.aux),
   v |-> (IF st.mode = "arr" THEN Value(st, slot % KOf(st)) ELSE 0),
   lgk |-> st.lgk]

NonDecreasing(s) == \A i \in 1..(Len(s) - 1) : s[i] <= s[i + 1]

\* C01 (deterministic clause) on the order-projection of lb3,lb2,lb1,est,ub1,ub2,ub3;
\* C03: a non-empty sketch never reports estimate zero; C18: exact image size
ObsOK(st, o) ==
  /\ On("C01") => NonDecreasing(o.b)
  /\ On("C02") => o.emp = IsEmpty(st)
  /\ On("C03") => (~IsEmpty(st) => o.pos)
  /\ On("C18") => o.len = SerLen(st)

\* the image is byte-canonical except for the order of Hll4 exception entries, which
\* follows the writer's exception-table layout
CanonicalImage(st) == ~(st.mode = "arr" /\ st.type = 4 /\ Cardinality(st.aux) >= 2)

TInit == l = 1 /\ obj = <<>> /\ uni = <<>>

TrRun == IsEv("Run") /\ obj' = <<>> /\ uni' = <<>>

Put(f, i, v) == (i :> v) @@ f

TrNew ==
  /\ IsEv("New")
  /\ obj' = Put(obj, Ev.id, NewSketch(Ev.lgk, Ev.type))
  /\ UNCHANGED uni

\* one coupon into one sketch
TrUpd ==
  /\ IsEv("Upd")
  /\ LET i == Ev.id  c == <<Ev.c[1], Ev.c[2]>>  n == Update(obj[i], c) IN
     /\ obj' = [obj EXCEPT ![i] = n]
     /\ On("C02") => Sc(n, c[1]) = Ev.st
     /\ ObsOK(n, Ev.o)
  /\ UNCHANGED uni

\* one coupon into a triplet (Hll4, Hll6, Hll8 fed the same stream): equal
\* estimates and bounds, bit for bit
TrUpd3 ==
  /\ IsEv("Upd3")
  /\ LET c == <<Ev.c[1], Ev.c[2]>>
         n == [j \in 1..3 |-> Update(obj[Ev.ids[j]], c)] IN
     /\ obj' = [i \in DOMAIN obj |->
                  IF \E j \in 1..3 : Ev.ids[j] = i
                  THEN n[CHOOSE j \in 1..3 : Ev.ids[j] = i] ELSE obj[i]]
     /\ \A j \in 1..3 : /\ On("C02") => Sc(n[j], c[1]) = Ev.st[j]
                        /\ ObsOK(n[j], Ev.o[j])
     /\ On("C02") => (Ev.tok[1] = Ev.tok[2] /\ Ev.tok[2] = Ev.tok[3])
  /\ UNCHANGED uni

\* full state comparison
TrChk ==
  /\ IsEv("Chk")
  /\ (On("C02") \/ On("C03")) => Full(obj[Ev.id]) = Ev.st
  /\ ObsOK(obj[Ev.id], Ev.o)
  /\ UNCHANGED <<obj, uni>>

\* to := deserialize(serialize(id)); the image must have the exact size, the copy the
\* same observable state and the same estimates/bounds bit for bit
TrRT ==
  /\ IsEv("RT")
  /\ LET n == RoundTrip(obj[Ev.id]) IN
     /\ obj' = Put(obj, Ev.to, n)
     /\ On("C11") => (/\ Full(n) = Ev.st /\ Ev.tok[1] = Ev.tok[2]
                       /\ Ev.samex /\ (CanonicalImage(n) => Ev.same))
     /\ ObsOK(n, Ev.o)
  /\ UNCHANGED uni

TrUNew ==
  /\ IsEv("UNew")
  /\ uni' = Put(uni, Ev.id, NewUnion(Ev.lgmax))
  /\ UNCHANGED obj

GadgetOK(u, e) ==
  /\ On("C03") => Sc(u.g, 0) = e.st
  /\ ObsOK(u.g, e.o)

TrUUpd ==
  /\ IsEv("UUpd")
  /\ LET n == UnionUpdate(uni[Ev.id], obj[Ev.src]) IN
     uni' = [uni EXCEPT ![Ev.id] = n] /\ GadgetOK(n, Ev)
  /\ UNCHANGED obj

TrUVal ==
  /\ IsEv("UVal")
  /\ LET n == UnionValue(uni[Ev.id], <<Ev.c[1], Ev.c[2]>>) IN
     uni' = [uni EXCEPT ![Ev.id] = n] /\ GadgetOK(n, Ev)
  /\ UNCHANGED obj

TrUReset ==
  /\ IsEv("UReset")
  /\ uni' = [uni EXCEPT ![Ev.id] = UnionReset(@)]
  /\ UNCHANGED obj

TrUChk ==
  /\ IsEv("UChk")
  /\ On("C03") => Full(uni[Ev.id].g) = Ev.st
  /\ ObsOK(uni[Ev.id].g, Ev.o)
  /\ UNCHANGED <<obj, uni>>

\* to_sketch for the three target types at once: same registers, same flag, and the
\* same estimate and bounds bit for bit, also equal to the union's own
TrUToSk3 ==
  /\ IsEv("UToSk3")
  /\ LET u == uni[Ev.id]
         n == [j \in 1..3 |-> ToSketch(u, Ev.types[j])] IN
     /\ obj' = (Ev.to[1] :> n[1]) @@ (Ev.to[2] :> n[2]) @@ (Ev.to[3] :> n[3]) @@ obj
     /\ \A j \in 1..3 : /\ On("C03") => Full(n[j]) = Ev.st[j]
                        /\ ObsOK(n[j], Ev.o[j])
     /\ On("C03") => (Ev.tok[1] = Ev.tok[2] /\ Ev.tok[2] = Ev.tok[3] /\ Ev.tok[3] = Ev.utok)
  /\ UNCHANGED uni

\* a panic on a valid operation is never explainable
TrPanic == IsEv("Panic") /\ FALSE /\ UNCHANGED <<obj, uni>>

TNext == TrRun \/ TrNew \/ TrUpd \/ TrUpd3 \/ TrChk \/ TrRT \/ TrUNew \/ TrUUpd \/ TrUVal
         \/ TrUReset \/ TrUChk \/ TrUToSk3 \/ TrPanic
TSpec == TInit /\ [][TNext]_tvars

Accepted ==
  LET d == TLCGet("stats").diameter IN
  IF d - 1 = Len(Rec) THEN TRUE
  ELSE Print(<<"UNMATCHED", d, Rec[d]>>, FALSE)
===============================================================================
