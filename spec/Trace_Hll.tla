------------------------------ MODULE Trace_Hll ------------------------------
(* Trace validation for HllSketch and HllUnion: every event recorded from the  *)
(* real code (public API + verif hooks) must be explained by the actions of    *)
(* Hll.tla / HllUnion.tla, with the logged state equal to the specification's. *)
(* Check \subseteq property ids selects which properties' conjuncts are        *)
(* enforced; the specification's own state always evolves by its actions.      *)
EXTENDS HllFormat, Json, IOUtils

CONSTANT Check

Rec == ndJsonDeserialize(IOEnv.TRACE)

VARIABLES l, obj, uni
tvars == <<l, obj, uni>>

Ev == Rec[l]
IsEv(op) == l <= Len(Rec) /\ Ev.op = op /\ l' = l + 1
On(p) == p \in Check

ToSeq0(f) == [i \in 1..Cardinality(DOMAIN f) |-> f[i - 1]]

SortBySlot(S) == SetToSortSeq(S, LAMBDA x, y : x[1] < y[1])

\* full projection, as logged by the harness from HllSketch::verif_state()
Full(st) ==
  [m |-> st.mode, lgk |-> st.lgk, t |-> st.type, cap |-> st.listCap, list |-> st.list,
   lga |-> st.setLg, tab |-> ToSeq0(st.tab), cnt |-> st.cnt, cells |-> ToSeq0(st.cells),
   regs |-> (IF st.mode = "arr" THEN ToSeq0(Regs(st)) ELSE <<>>),
   cm |-> st.curMin, n |-> st.nacm, aux |-> SortBySlot(st.aux), ooo |-> st.ooo,
   hp |-> (st.mode = "arr" /\ ~st.ooo /\ st.hipPos)]

\* cheap scalars logged after every update
Sc(st, slot) ==
  [m |-> st.mode,
   n |-> (CASE st.mode = "list" -> Len(st.list) [] st.mode = "set" -> st.cnt [] OTHER -> st.nacm),
   cm |-> st.curMin, na |-> Cardinality(st.aux),
   v |-> (IF st.mode = "arr" THEN Value(st, slot % KOf(st)) ELSE 0),
   lgk |-> st.lgk]

Pairs(e) == [i \in 1..Len(e) |-> <<e[i][1], e[i][2]>>]
Bytes(e) == [i \in 1..Len(e) |-> e[i]]

\* C12: the emitted bytes are exactly the cross-language layout of the state the sketch holds
ImgOK(st, e) ==
  ("img" \in DOMAIN e) =>
    LET auxo == Pairs(e.auxo) IN
    /\ {auxo[i] : i \in 1..Len(auxo)} = st.aux /\ Len(auxo) = Cardinality(st.aux)
    /\ Bytes(e.img) = EncOwn(st, Bytes(e.fb), auxo)

\* the specification state described by a logged full projection
FromFull(e) ==
  [lgk |-> e.lgk, type |-> e.t, mode |-> e.m, list |-> Pairs(e.list), listCap |-> e.cap,
   setLg |-> e.lga, tab |-> [p \in 0..(Len(e.tab) - 1) |-> <<e.tab[p + 1][1], e.tab[p + 1][2]>>], cnt |-> e.cnt,
   cells |-> [p \in 0..(Len(e.cells) - 1) |-> e.cells[p + 1]], curMin |-> e.cm, nacm |-> e.n,
   aux |-> {<<e.aux[i][1], e.aux[i][2]>> : i \in 1..Len(e.aux)}, ooo |-> e.ooo, hipPos |-> e.hp]

\* what a reader must rebuild from an image of the given variant
Decoded(st, v) ==
  CASE st.mode = "list" -> [st EXCEPT !.listCap = Pow2(v.lgarr)]
    [] st.mode = "set"  -> IF v.compact
                           THEN [st EXCEPT !.tab = InsertAll(EmptyTab(st.setLg), st.setLg, SortCoupons(RangeOf(st.tab) \ {NoC}))]
                           ELSE st
    [] st.mode = "arr"  -> [st EXCEPT !.hipPos = IF st.ooo THEN FALSE ELSE @]

EncVariant(st, e) ==
  LET v == e.variant IN
  CASE st.mode = "list" -> EncList(st, v.compact, v.lgarr)
    [] st.mode = "set"  -> EncSet(st, v.compact)
    [] st.mode = "arr"  -> EncArr(st, Bytes(e.fb), v.compact, Pairs(e.auxo), v.lgaux, Pairs(e.auxtab))

NonDecreasing(s) == \A i \in 1..(Len(s) - 1) : s[i] <= s[i + 1]

\* C01 (deterministic clause) on the order-projection of lb3,lb2,lb1,est,ub1,ub2,ub3;
\* C03: a non-empty sketch never reports estimate zero; C18: exact image size
\* C01 (advertised spread): in register mode the one-sigma bounds are estimate / (1 +- e) with e the
\* relative standard error of the estimator in use: sqrt(ln 2)/sqrt(k) for the HIP estimator of an
\* in-order sketch, sqrt(3 ln 2 - 1)/sqrt(k) for the composite estimator of an out-of-order one
\* (10^-6 units; the empirical one-sigma quantiles used for lg_k <= 12 lie within 2.1% of these)
Rse6(lgk, ooo) ==
  LET t == IF lgk % 2 = 0 THEN (IF ooo THEN 1038960 ELSE 832555)
           ELSE (IF ooo THEN 734656 ELSE 588705)              \* divided by sqrt 2
  IN t \div Pow2(lgk \div 2)
RelOK(st, rel) ==
  (st.mode = "arr" /\ rel[1] >= 0) =>
    \A i \in 1..2 : LET e == Rse6(st.lgk, st.ooo) IN
      /\ rel[i] * 100 >= 96 * e
      /\ rel[i] * 100 <= 104 * e

\* C01 (sparse modes): with n distinct coupons out of 2^26 the collision-corrected estimate lies in
\* [n, n (1 + 1/256)] (n + n^2 / 2^27 to first order), and the upper bound advertises the coupon RSE
\* 0.409 / 2^13 (49.9 * 10^-6); the estimate is logged in thousandths
SparseN(st) == IF st.mode = "list" THEN Len(st.list) ELSE st.cnt
SparseOK(st, o) ==
  (st.mode # "arr" /\ SparseN(st) > 0 /\ o.e3 >= 0) =>
     LET n == SparseN(st) IN
     /\ o.e3 >= 1000 * n
     /\ o.e3 <= 1000 * n + (1000 * n) \div 256 + 1
     /\ o.rel[2] >= 48 /\ o.rel[2] <= 52

\* C01 (register mode): every register that is not zero was raised by an item of its own, so the set has at
\* least that many members; an interval whose three-sigma upper bound lies below that number cannot contain
\* the true cardinality for any item set that leads to this state. (Evaluated at checkpoints and union steps.)
NzOK(st, o) ==
  (On("C01") /\ st.mode = "arr" /\ "ub3i" \in DOMAIN o) => o.ub3i + 1 >= KOf(st) - Histogram(st)[0]

ObsOK(st, o) ==
  /\ On("C01") => (NonDecreasing(o.b) /\ RelOK(st, o.rel) /\ SparseOK(st, o))
  /\ On("C02") => o.emp = IsEmpty(st)
  /\ On("C03") => (~IsEmpty(st) => o.pos)
  /\ On("C18") => o.len = SerLen(st)

\* the image is byte-canonical except for the order of Hll4 exception entries, which
\* follows the writer's exception-table layout
\* and for the HIP accumulator field of an out-of-order array, which carries no information
CanonicalImage(st) == ~(st.mode = "arr" /\ ((st.type = 4 /\ Cardinality(st.aux) >= 2) \/ st.ooo))

TInit == l = 1 /\ obj = <<>> /\ uni = <<>>

TrRun == IsEv("Run") /\ obj' = <<>> /\ uni' = <<>>

Put(f, i, v) == (i :> v) @@ f

TrNew ==
  /\ IsEv("New")
  /\ obj' = Put(obj, Ev.id, NewSketch(Ev.lgk, Ev.type))
  /\ UNCHANGED uni

\* one coupon into one sketch
TrUpd ==
  /\ IsEv("Upd")
  /\ obj' = [obj EXCEPT ![Ev.id] = Update(@, <<Ev.c[1], Ev.c[2]>>)]
  /\ LET n == obj'[Ev.id] IN
     /\ On("C02") => Sc(n, Ev.c[1]) = Ev.st
     /\ ObsOK(n, Ev.o)
  /\ UNCHANGED uni

\* one coupon into a triplet (Hll4, Hll6, Hll8 fed the same stream): equal
\* estimates and bounds, bit for bit
TrUpd3 ==
  /\ IsEv("Upd3")
  /\ obj' = [i \in DOMAIN obj |->
               IF \E j \in 1..3 : Ev.ids[j] = i
               THEN Update(obj[i], <<Ev.c[1], Ev.c[2]>>) ELSE obj[i]]
  /\ \A j \in 1..3 : LET n == obj'[Ev.ids[j]] IN
                       /\ On("C02") => Sc(n, Ev.c[1]) = Ev.st[j]
                       /\ ObsOK(n, Ev.o[j])
  /\ On("C02") => (Ev.tok[1] = Ev.tok[2] /\ Ev.tok[2] = Ev.tok[3])
  /\ UNCHANGED uni

\* full state comparison
\* the kxq0 / kxq1 fields of a register-mode sketch (logged as integers kxq0 * 2^31, kxq1 * 2^63)
KxqOK(st, e) ==
  (st.mode = "arr" /\ "kx0" \in DOMAIN e) =>
     \E h \in {Histogram(st)} :                 \* (bound once: a LET body is re-evaluated at each use)
       /\ [i \in 1..4 |-> e.kx0[i]] = Kxq0Of(h)
       /\ [i \in 1..4 |-> e.kx1[i]] = Kxq1Of(h)

TrChk ==
  /\ IsEv("Chk")
  /\ (On("C02") \/ On("C03")) => Full(obj[Ev.id]) = Ev.st
  /\ (On("C01") \/ On("C02") \/ On("C03") \/ On("C12") \/ On("C13")) => KxqOK(obj[Ev.id], Ev)   \* (C12: header bytes 16..32; C13: as decoded)
  /\ On("C12") => ImgOK(obj[Ev.id], Ev)
  /\ ObsOK(obj[Ev.id], Ev.o) /\ NzOK(obj[Ev.id], Ev.o)
  /\ UNCHANGED <<obj, uni>>

\* C13: an image of some cross-language variant, built by the harness from the abstract state abs.
\* The specification's own encoder must produce the same bytes for that variant (so the image is a
\* valid encoding of abs), and the library must decode it to exactly that state.
TrLoad ==
  /\ IsEv("Load")
  /\ LET a == FromFull(Ev.abs) IN
     /\ (Ev.abs.m = "arr" /\ Ev.abs.t = 4 /\ ~Ev.variant.compact /\ a.aux # {}) => AuxTabOK(a, Ev.variant.lgaux, Pairs(Ev.auxtab))
     /\ Bytes(Ev.img) = EncVariant(a, Ev)
     /\ obj' = Put(obj, Ev.id, Decoded(a, Ev.variant))
  /\ On("C13") => (Ev.ok /\ Full(obj'[Ev.id]) = Ev.st)
  /\ (Ev.ok => ObsOK(obj'[Ev.id], Ev.o))
  /\ UNCHANGED uni

\* to := deserialize(serialize(id)); the image must have the exact size, the copy the
\* same observable state and the same estimates/bounds bit for bit
TrRT ==
  /\ IsEv("RT")
  /\ obj' = Put(obj, Ev.to, RoundTrip(obj[Ev.id]))
  /\ LET n == obj'[Ev.to] IN
     /\ On("C11") => (/\ Full(n) = Ev.st /\ Ev.tok[1] = Ev.tok[2]
                       /\ Ev.samex /\ (CanonicalImage(n) => Ev.same))
     /\ ObsOK(n, Ev.o)
  /\ UNCHANGED uni

\* a sketch and its decoded copy after the same further updates: bit-identical estimate and bounds
TrCmp ==
  /\ IsEv("Cmp")
  /\ On("C11") => (/\ Ev.same
                   /\ obj[Ev.a].mode = obj[Ev.b].mode
                   /\ IF obj[Ev.a].mode = "arr" THEN Regs(obj[Ev.a]) = Regs(obj[Ev.b])
                      ELSE Coupons(obj[Ev.a]) = Coupons(obj[Ev.b]))
  /\ UNCHANGED <<obj, uni>>

TrUNew ==
  /\ IsEv("UNew")
  /\ uni' = Put(uni, Ev.id, NewUnion(Ev.lgmax))
  /\ UNCHANGED obj

GadgetOK(u, e) ==
  /\ On("C03") => Sc(u.g, 0) = e.st
  /\ ObsOK(u.g, e.o)

TrUUpd ==
  /\ IsEv("UUpd")
  /\ uni' = [uni EXCEPT ![Ev.id] = UnionUpdate(@, obj[Ev.src])]
  /\ GadgetOK(uni'[Ev.id], Ev) /\ NzOK(uni'[Ev.id].g, Ev.o)
  /\ UNCHANGED obj

TrUVal ==
  /\ IsEv("UVal")
  /\ uni' = [uni EXCEPT ![Ev.id] = UnionValue(@, <<Ev.c[1], Ev.c[2]>>)]
  /\ GadgetOK(uni'[Ev.id], Ev)
  /\ UNCHANGED obj

TrUReset ==
  /\ IsEv("UReset")
  /\ uni' = [uni EXCEPT ![Ev.id] = UnionReset(@)]
  /\ UNCHANGED obj

TrUChk ==
  /\ IsEv("UChk")
  /\ On("C03") => Full(uni[Ev.id].g) = Ev.st
  /\ ObsOK(uni[Ev.id].g, Ev.o) /\ NzOK(uni[Ev.id].g, Ev.o)
  /\ UNCHANGED <<obj, uni>>

\* to_sketch for the three target types at once: same registers, same flag, and the
\* same estimate and bounds bit for bit, also equal to the union's own
TrUToSk3 ==
  /\ IsEv("UToSk3")
  /\ obj' = (Ev.to[1] :> ToSketch(uni[Ev.id], Ev.types[1])) @@ (Ev.to[2] :> ToSketch(uni[Ev.id], Ev.types[2]))
             @@ (Ev.to[3] :> ToSketch(uni[Ev.id], Ev.types[3])) @@ obj
  /\ \A j \in 1..3 : LET n == obj'[Ev.to[j]] IN
                       /\ On("C03") => Full(n) = Ev.st[j]
                       /\ ObsOK(n, Ev.o[j]) /\ NzOK(n, Ev.o[j])
  /\ On("C03") => (Ev.tok[1] = Ev.tok[2] /\ Ev.tok[2] = Ev.tok[3] /\ Ev.tok[3] = Ev.utok)
  /\ UNCHANGED uni

\* a panic on a valid operation is never explainable
TrPanic == IsEv("Panic") /\ FALSE /\ UNCHANGED <<obj, uni>>

TNext == TrCmp \/ TrRun \/ TrNew \/ TrUpd \/ TrUpd3 \/ TrChk \/ TrLoad \/ TrRT \/ TrUNew \/ TrUUpd \/ TrUVal
         \/ TrUReset \/ TrUChk \/ TrUToSk3 \/ TrPanic
TSpec == TInit /\ [][TNext]_tvars

Accepted ==
  LET d == TLCGet("stats").diameter IN
  IF d - 1 = Len(Rec) THEN TRUE
  ELSE Print(<<"UNMATCHED", d, Rec[d]>>, FALSE)
===============================================================================
