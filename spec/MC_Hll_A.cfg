\* K = 4, list -> array directly, 3-valued cells so that exceptions and cur_min shifts
\* with a live exception map are reached with values <= 6
CONSTANTS ListCap = 2  InitSetLg = 2  SetLgOff = 1  AuxToken = 3  MaxVal = 6
          LgK = 2
          Alphabet <- AlphaA
SPECIFICATION Spec
INVARIANT Inv
PROPERTY ModeMonotone
CHECK_DEADLOCK FALSE
