------------------------------ MODULE MC_Theta ------------------------------
(* Exhaustive toy instance: k = 2 or 4, hash domain 1..MaxH (rank = low bits = *)
(* the value), every interleaving of offer / trim / reset / compact.           *)
EXTENDS Theta

CONSTANTS LgNom, Rf, MaxH, Th0, MaxOps

VARIABLES st, offered, ops
vars == <<st, offered, ops>>

H(x) == <<x, x>>
Mx == MaxH + 1

Init == st = NewTheta(LgNom, Rf, Th0, Mx) /\ offered = {} /\ ops = 0

DoOffer(x) ==
  LET h == H(x)
      lay == IF NeedsRebuildOnInsert(st, h) THEN CanonLayout(Placed(st, h)) ELSE <<>> IN
  /\ st' = Offer(st, h, lay)
  /\ offered' = offered \cup {h}

DoTrim ==
  /\ st' = Trim(st, IF st.n > K(st) THEN CanonLayout(st) ELSE <<>>)
  /\ UNCHANGED offered

DoReset == st' = Reset(st) /\ offered' = {}

Next == /\ ops < MaxOps /\ ops' = ops + 1
        /\ ((\E x \in 1..MaxH : DoOffer(x)) \/ DoTrim \/ DoReset)

Spec == Init /\ [][Next]_vars

\* compact(ordered) describes the same set
CompactSame ==
  \A o \in BOOLEAN :
    LET c == Compact(st, o) IN
    /\ {c.entries[i] : i \in 1..Len(c.entries)} = Entries(st)
    /\ Len(c.entries) = st.n
    /\ c.empty = st.empty
    /\ (~st.empty => c.theta = st.theta)
    /\ (c.ordered => \A i \in 1..(Len(c.entries) - 1) : c.entries[i][1] < c.entries[i + 1][1])
    /\ (o => c.ordered)

\* trim leaves exactly the k smallest
TrimOK ==
  LET t == Trim(st, IF st.n > K(st) THEN CanonLayout(st) ELSE <<>>) IN
  /\ t.n <= K(st) \/ st.n <= K(st)
  /\ (st.n > K(st) => Entries(t) = KSmallest(st) /\ t.n = K(st))
  /\ TableOK(t)

Inv == TableOK(st) /\ KMV(st, offered) /\ ThetaOK(st, offered) /\ SizeOK(st)
       /\ EmptyOK(st, offered) /\ CompactSame /\ TrimOK

ThetaMonotone == [][st'.theta <= st.theta \/ st' = Reset(st)]_vars
===============================================================================
