CONSTANTS M = 3  MaxN = 3  WS = {1, 2, 5}  EmitHeavy = TRUE
SPECIFICATION Spec
INVARIANT GInv
CHECK_DEADLOCK FALSE
