CONSTANTS NumCols = 64  WinBits = 8  SpNum = 3  SpDen = 32  OffBase = 19
          Check = {"C01", "C05", "C06", "C11", "C12", "C18"}
SPECIFICATION TSpec
POSTCONDITION Accepted
CHECK_DEADLOCK FALSE
