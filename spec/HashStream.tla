------------------------------ MODULE HashStream ------------------------------
(* Block-buffering state machine of the library's streaming hashers           *)
(* (hash/murmurhash.rs: 16-byte blocks, hash/xxhash.rs: 32-byte blocks).      *)
(*                                                                            *)
(* Bytes are represented by their position in the stream (1, 2, 3, ...), so   *)
(* "the hasher has absorbed exactly the bytes written, in order, cut into     *)
(* B-byte blocks" is a statement about sequences of positions.  The digest is *)
(* a function of (absorbed blocks, buffered tail, total length) only; hence   *)
(* if these are a function of the byte string alone, so is the digest.        *)
EXTENDS Integers, Sequences

CONSTANTS B,        \* block size in bytes (16 murmur, 32 xxhash; 4 in the toy instance)
          MaxLen,   \* bound on the total number of bytes written
          MaxChunk  \* bound on the length of one write

VARIABLES absorbed, \* sequence of full blocks already mixed into the lanes
          buf,      \* bytes waiting in the partial-block buffer
          n         \* number of bytes written so far (ghost: the stream is <<1..n>>)

vars == <<absorbed, buf, n>>

Range(a, b) == [i \in 1..(b - a + 1) |-> a + i - 1]

RECURSIVE Flatten(_)
Flatten(ss) == IF ss = <<>> THEN <<>> ELSE Head(ss) \o Flatten(Tail(ss))

\* Cut a sequence into consecutive blocks of B; returns <<blocks, remainder>>.
RECURSIVE Cut(_, _, _)
Cut(b, s, acc) == IF Len(s) < b THEN <<acc, s>>
                  ELSE Cut(b, SubSeq(s, b + 1, Len(s)), Append(acc, SubSeq(s, 1, b)))

(* The three phases of Hasher::write, as in the code:                         *)
(*  1. everything fits below one block -> append to the buffer, return;       *)
(*  2. a non-empty buffer is topped up to a full block and absorbed;          *)
(*  3. full blocks of the rest are absorbed, the remainder (< B) is buffered.  *)
WriteResult(b, st, chunk) ==
  IF Len(st.buf) + Len(chunk) < b
  THEN [st EXCEPT !.buf = @ \o chunk, !.n = @ + Len(chunk)]
  ELSE LET wanted == IF st.buf = <<>> THEN 0 ELSE b - Len(st.buf)
           first  == IF st.buf = <<>> THEN <<>> ELSE <<st.buf \o SubSeq(chunk, 1, wanted)>>
           rest   == SubSeq(chunk, wanted + 1, Len(chunk))
           c      == Cut(b, rest, <<>>)
       IN [absorbed |-> st.absorbed \o first \o c[1], buf |-> c[2], n |-> st.n + Len(chunk)]

St == [absorbed |-> absorbed, buf |-> buf, n |-> n]
InitSt == [absorbed |-> <<>>, buf |-> <<>>, n |-> 0]

Init == absorbed = <<>> /\ buf = <<>> /\ n = 0

Write(len) ==
  /\ n + len <= MaxLen
  /\ LET r == WriteResult(B, St, Range(n + 1, n + len))
     IN absorbed' = r.absorbed /\ buf' = r.buf /\ n' = r.n

Next == \E len \in 0..MaxChunk : Write(len)

Spec == Init /\ [][Next]_vars

(* ---- properties --------------------------------------------------------- *)
\* The hasher state is a function of the bytes written, not of the chunking.
StreamInv(b, st) ==
  /\ Flatten(st.absorbed) \o st.buf = Range(1, st.n)
  /\ Len(st.buf) < b
  /\ \A i \in 1..Len(st.absorbed) : Len(st.absorbed[i]) = b

Inv == StreamInv(B, St)

\* What the two implementations expose through the hook.
MurmurObs(b, st) == <<Len(st.buf), b * Len(st.absorbed)>>   \* (buf_len, total)
XxObs(st)     == <<Len(st.buf), st.n>>                   \* (buffer_len, total_len)
===============================================================================
