SPECIFICATION Spec
CONSTANTS
  B = 4
  N = 3
INVARIANT Inv
