------------------------------ MODULE PairTable ------------------------------
(* The CPC surprising-value table (cpc/pair_table.rs): linear probing from the *)
(* high bits of the item, deletion by re-inserting the rest of the cluster,    *)
(* growth above 3/4 load and shrinking below 1/4.  Items are row << 6 | col.   *)
EXTENDS Integers, Sequences, FiniteSets, TLC, SequencesExt

Empty == -1
P2(n) == 2 ^ n

NewPT(lg, vb) == [lg |-> lg, vb |-> vb, n |-> 0, slots |-> [p \in 0..(P2(lg) - 1) |-> Empty]]

Home(t, x) == x \div P2(t.vb - t.lg)

RECURSIVE Probe(_, _, _, _)
Probe(slots, size, x, p) ==
  IF slots[p] = x \/ slots[p] = Empty THEN p ELSE Probe(slots, size, x, (p + 1) % size)

Lookup(t, x) == Probe(t.slots, P2(t.lg), x, Home(t, x))

MustInsert(t, x) == [t EXCEPT !.slots[Lookup(t, x)] = x]

Occupied(t) == SelectSeq([i \in 1..P2(t.lg) |-> t.slots[i - 1]], LAMBDA v : v # Empty)

Rebuild(t, lg) ==
  FoldLeft(LAMBDA acc, x : MustInsert(acc, x), [t EXCEPT !.lg = lg, !.slots = [p \in 0..(P2(lg) - 1) |-> Empty]],
           Occupied(t))

RECURSIVE Upsize(_)
Upsize(t) == IF 4 * t.n > 3 * P2(t.lg) THEN Upsize(Rebuild(t, t.lg + 1)) ELSE t
RECURSIVE Downsize(_)
Downsize(t) == IF 4 * t.n < P2(t.lg) /\ t.lg > 2 THEN Downsize(Rebuild(t, t.lg - 1)) ELSE t

\* maybe_insert: <<table, novel>>
MaybeInsert(t, x) ==
  LET i == Lookup(t, x) IN
  IF t.slots[i] = x THEN <<t, FALSE>>
  ELSE <<Upsize([t EXCEPT !.slots[i] = x, !.n = @ + 1]), TRUE>>

\* the run of occupied slots after index i is removed and re-inserted one by one
RECURSIVE Reinsert(_, _)
Reinsert(t, p) ==
  IF t.slots[p] = Empty THEN t
  ELSE LET x == t.slots[p] IN Reinsert(MustInsert([t EXCEPT !.slots[p] = Empty], x), (p + 1) % P2(t.lg))

MaybeDelete(t, x) ==
  LET i == Lookup(t, x) IN
  IF t.slots[i] = Empty THEN <<t, FALSE>>
  ELSE <<Downsize(Reinsert([t EXCEPT !.slots[i] = Empty, !.n = @ - 1], (i + 1) % P2(t.lg))), TRUE>>

Items(t) == {t.slots[p] : p \in DOMAIN t.slots} \ {Empty}

\* every stored item is found by its own probe sequence (no lookup can miss it)
Reachable(slots, lg, vb) ==
  LET t == [lg |-> lg, vb |-> vb, n |-> 0, slots |-> slots] IN
  \A p \in DOMAIN slots : slots[p] # Empty => Lookup(t, slots[p]) = p

TableOK(t) ==
  /\ Reachable(t.slots, t.lg, t.vb)
  /\ t.n = Cardinality(Items(t))
  /\ Cardinality({p \in DOMAIN t.slots : t.slots[p] # Empty}) = t.n
  /\ 4 * t.n <= 3 * P2(t.lg)
===============================================================================
