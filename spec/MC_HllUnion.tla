----------------------------- MODULE MC_HllUnion -----------------------------
(* Exhaustive instance of HllUnion over a catalogue of input shapes (empty,   *)
(* list, table, array x Hll4/6/8 x several lgK, fresh / round-tripped /       *)
(* out-of-order results of an earlier to_sketch), in every order and with     *)
(* repetition, interleaved with update_value, reset and to_sketch.            *)
EXTENDS HllUnion

CONSTANTS LgMax, MaxHarvest, MaxSteps

VARIABLES u,        \* the union under test
          pool,     \* available input sketches
          seen,     \* ghost: coupons of everything fed since the last reset
          minArr,   \* ghost: smallest lgK of the array-mode inputs since the last reset (or LgMax)
          harvested, steps

vars == <<u, pool, seen, minArr, harvested, steps>>

Mk(lgk, type, cs) == SketchUpdateAll(NewSketch(lgk, type), cs)

Base ==
  { Mk(3, 4, <<>>),                                              \* empty
    Mk(3, 8, << <<1,1>> >>),                                     \* list, same lgK as the union
    Mk(4, 6, << <<9,2>> >>),                                     \* list, other lgK
    Mk(3, 4, << <<1,2>>, <<5,1>>, <<10,3>> >>),                  \* table
    Mk(2, 4, << <<0,1>>, <<1,5>> >>),                            \* array lgK 2 (Hll4, exception)
    Mk(2, 6, << <<3,2>>, <<6,1>> >>),                            \* array lgK 2 (Hll6)
    Mk(3, 8, << <<1,1>>, <<2,1>>, <<3,6>>, <<12,2>> >>),         \* array lgK 3 (Hll8)
    Mk(3, 4, << <<0,4>>, <<2,1>>, <<5,1>>, <<7,2>> >>),          \* array lgK 3 (Hll4)
    Mk(4, 6, << <<0,1>>, <<1,1>>, <<2,2>>, <<3,1>>, <<12,3>>, <<13,1>>, <<14,1>> >>) }  \* array lgK 4

Init == /\ u = NewUnion(LgMax) /\ pool = Base /\ seen = {} /\ minArr = LgMax
        /\ harvested = 0 /\ steps = 0

Feed(src) ==
  /\ u' = UnionUpdate(u, src)
  /\ seen' = seen \cup AllCoupons(src)
  /\ minArr' = IF src.mode = "arr" /\ src.lgk < minArr THEN src.lgk ELSE minArr
  /\ UNCHANGED <<pool, harvested>>

Val(c) ==
  /\ u' = UnionValue(u, c)
  /\ seen' = seen \cup {c}
  /\ UNCHANGED <<pool, minArr, harvested>>

Reset ==
  /\ u' = UnionReset(u) /\ seen' = {} /\ minArr' = LgMax
  /\ UNCHANGED <<pool, harvested>>

\* results of to_sketch (and their deserialized copies) become inputs: this is how
\* out-of-order sketches of every target type enter the catalogue
Harvest(t) ==
  /\ harvested < MaxHarvest
  /\ ~IsEmpty(u.g)
  /\ pool' = pool \cup {ToSketch(u, t), RoundTrip(ToSketch(u, t))}
  /\ harvested' = harvested + 1
  /\ UNCHANGED <<u, seen, minArr>>

Next ==
  /\ steps < MaxSteps /\ steps' = steps + 1
  /\ \/ \E src \in pool : Feed(src)
     \/ \E c \in {<<1,1>>, <<6,3>>, <<11,1>>} : Val(c)
     \/ Reset
     \/ \E t \in {4, 6, 8} : Harvest(t)

Spec == Init /\ [][Next]_vars

(* ---- C03 ---------------------------------------------------------------- *)
\* the union holds the register-wise maximum (coupon-set union while sparse) of the
\* inputs folded to the smallest lgK among LgMax and the array-mode inputs
URefines ==
  IF u.g.mode = "arr"
  THEN /\ u.g.lgk = minArr
       /\ \A s \in 0..(KOf(u.g) - 1) : Value(u.g, s) = A_Reg(seen, KOf(u.g), s)
  ELSE /\ Coupons(u.g) = seen
       /\ u.g.lgk = LgMax
       /\ minArr = LgMax

GadgetShape == u.g.type = 8 /\ Arr68Shape(u.g) /\ SetShape(u.g) /\ ListShape(u.g)

\* estimate and bounds do not depend on the target type: same registers, same flag
ToSketchTypeFree ==
  LET r == [t \in {4, 6, 8} |-> ToSketch(u, t)] IN
  /\ \A t \in {4, 6, 8} : /\ r[t].type = t /\ r[t].lgk = u.g.lgk /\ r[t].mode = u.g.mode
                          /\ Hll4Shape(r[t]) /\ Arr68Shape(r[t])
  /\ u.g.mode = "arr" => \A t \in {4, 6} : /\ Regs(r[t]) = Regs(r[8])
                                            /\ r[t].ooo = r[8].ooo
                                            /\ (r[t].hipPos /\ ~r[t].ooo) = (r[8].hipPos /\ ~r[8].ooo)
  /\ u.g.mode # "arr" => \A t \in {4, 6} : Coupons(r[t]) = Coupons(r[8])

\* a union of non-empty inputs never reports estimate zero: an array-mode result is
\* out of order (composite estimator) or has a positive HIP accumulator
NonEmptyNotZero ==
  /\ (seen # {}) => ~IsEmpty(u.g)
  /\ (u.g.mode = "arr") => (u.g.ooo \/ u.g.hipPos)

Inv == URefines /\ GadgetShape /\ ToSketchTypeFree /\ NonEmptyNotZero
===============================================================================
