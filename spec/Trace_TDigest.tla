---------------------------- MODULE Trace_TDigest ----------------------------
(* Trace validation for TDigestMut / TDigest.  Floating-point means, extremes  *)
(* and query results are order-projected per event (dense ranks: any formula   *)
(* over <, <=, = keeps its truth value); weights and counts are integers.      *)
(* The specification keeps the number of finite values offered as a ghost.     *)
EXTENDS Integers, Sequences, FiniteSets, TLC, Json, IOUtils

CONSTANT Check
Rec == ndJsonDeserialize(IOEnv.TRACE)

VARIABLES l, cnt,      \* cnt[i]: finite values offered to digest i (summed across merges)
          km           \* km[i]: the smallest k among the digests merged into digest i (its own included)
tvars == <<l, cnt, km>>
Ev == Rec[l]
IsEv(op) == l <= Len(Rec) /\ Ev.op = op /\ l' = l + 1
On(p) == p \in Check
Put(f, i, v) == (i :> v) @@ f
NonDecreasing(s) == \A i \in 1..(Len(s) - 1) : s[i] <= s[i + 1]
RECURSIVE Sum(_)
Sum(s) == IF s = <<>> THEN 0 ELSE Head(s) + Sum(Tail(s))

(* ---- binary layout (family 20, serial version 1, double flavour): 1 preamble long when empty or a single ----
   ---- value, else 2 longs, min, max, then (mean f64, weight u64) per centroid; f64 values are passed as bytes ---- *)
LE(x, n) == [i \in 1..n |-> (x \div (256 ^ (i - 1))) % 256]
B(e) == [i \in 1..Len(e) |-> e[i]]
RECURSIVE FlatCs(_, _, _)
FlatCs(mb, ws, i) == IF i > Len(ws) THEN <<>> ELSE B(mb[i]) \o LE(ws[i], 4) \o <<0, 0, 0, 0>> \o FlatCs(mb, ws, i + 1)
EncTD(e) ==
  LET rev == IF e.rev THEN 4 ELSE 0 IN
  IF e.tw = 0 THEN <<1, 1, 20>> \o LE(e.k, 2) \o <<1 + rev, 0, 0>>
  ELSE IF e.tw = 1 THEN <<1, 1, 20>> \o LE(e.k, 2) \o <<2 + rev, 0, 0>> \o B(e.minb)
  ELSE <<2, 1, 20>> \o LE(e.k, 2) \o <<rev, 0, 0>> \o LE(Len(e.ws), 4) \o <<0, 0, 0, 0>>
       \o B(e.minb) \o B(e.maxb) \o FlatCs(e.mb, e.ws, 1)

(* C15: the scale function bounds the weight of a centroid by where it sits. A centroid grows only by
   merges that satisfy  w <= W min(q0 (1 - q0), q2 (1 - q2)) z / (2k),  z = 4 ln(W / 2k) + 24,  for its
   edge quantiles q0, q2 at that time; later values only move W q (1 - q) z up, so the inequality holds
   in every later state. Checked with a factor 2 of slack for the heavy centroids (>= 2% of W), in
   thousandths rounded in the safe direction; ln x <= 0.6932 log2 x. *)
RECURSIVE Lg2Up(_)
Lg2Up(x) == IF x <= 1 THEN 0 ELSE 1 + Lg2Up((x + 1) \div 2)
ZUp(w, k) == 24 + 3 * Lg2Up(w \div (2 * k) + 1)
HeavyOK(e, k) ==
  (k >= 1 /\ k <= 2000) =>
    \A i \in 1..Len(e.wq) :
      LET w3 == e.wq[i][1]  a == e.wq[i][2]  b == e.wq[i][3]  z == ZUp(e.tw, k) IN
      \* a single value is always a centroid of its own. (IF, not a disjunction: inside an action TLC
      \* explores the disjuncts of every instance as alternatives, 2^n of them)
      IF e.wq[i][4] = 1 THEN TRUE
      ELSE /\ w3 * k * 1000 <= z * (a + 1) * (1000 - a)
           /\ w3 * k * 1000 <= z * (b + 1) * (1000 - b)

TInit == l = 1 /\ cnt = <<>> /\ km = <<>>
TrRun == IsEv("Run") /\ cnt' = <<>> /\ km' = <<>>

TrNew == IsEv("DNew") /\ cnt' = Put(cnt, Ev.id, 0) /\ km' = Put(km, Ev.id, Ev.k)

\* a digest decoded from an image the harness built (heavy end centroids): tw values behind it; its
\* centroids are not bound by this library's scale function (grain 0: HeavyOK claims nothing)
TrFrom == IsEv("DFrom") /\ cnt' = Put(cnt, Ev.id, Ev.tw) /\ km' = Put(km, Ev.id, 0)

\* a batch of updates: n finite values (NaN and infinities are ignored by the digest)
TrUpd == IsEv("DUpd") /\ cnt' = [cnt EXCEPT ![Ev.id] = @ + Ev.n] /\ UNCHANGED km

TrMerge ==
  /\ IsEv("DMerge")
  /\ cnt' = [cnt EXCEPT ![Ev.id] = @ + cnt[Ev.src]]
  /\ km' = [km EXCEPT ![Ev.id] = IF km[Ev.src] < @ /\ cnt[Ev.src] > 0 THEN km[Ev.src] ELSE @]

\* copy through freeze/unfreeze or serialize/deserialize
TrCopy ==
  /\ IsEv("DCopy")
  /\ cnt' = Put(cnt, Ev.to, cnt[Ev.id])
  /\ km' = Put(km, Ev.to, km[Ev.id])
  /\ On("C11") => Ev.same

\* the original and its deserialized copy taken through the same further updates / the same merge
TrCont ==
  /\ IsEv("DCont")
  /\ On("C11") => (Ev.upd_same /\ Ev.merge_same)
  /\ UNCHANGED <<cnt, km>>

(* checkpoint after compression: centroid list decoded from serialize(), extremes, grids *)
TrChk ==
  /\ IsEv("DChk")
  /\ LET n == cnt[Ev.id] IN
     /\ (On("C10") \/ On("C15")) =>
          /\ Ev.tw = n                                     \* total_weight = number of finite values offered
          /\ Sum(Ev.ws) = Ev.tw                            \* centroid weights sum to total_weight
          /\ \A i \in 1..Len(Ev.ws) : Ev.ws[i] >= 1
          /\ NonDecreasing(Ev.means)                       \* means sorted
          /\ (n > 0 => /\ Ev.min <= Ev.means[1] /\ Ev.means[Len(Ev.means)] <= Ev.max   \* inside [min, max]
                       /\ Ev.min = Ev.smin /\ Ev.max = Ev.smax)                        \* exact extremes
     /\ (On("C12") /\ "img" \in DOMAIN Ev) => B(Ev.img) = EncTD(Ev)
     /\ On("C15") => /\ Len(Ev.means) <= 2 * Ev.k + 30      \* bounded number of centroids
                     /\ (n > 0 => HeavyOK(Ev, km[Ev.id]))   \* (centroids taken over from a digest of smaller k keep its grain)
                     /\ Ev.len <= 32 + 16 * (2 * Ev.k + 30)
                     /\ (n > 1 => Ev.len = 32 + 16 * Len(Ev.means))
                     \* exact to one sample at the extremes (when the extreme value was offered once: its
                     \* true rank is then 1/2n by the midpoint rule, resp. 1 - 1/2n); 10^-6 units
                     /\ ((n > 1 /\ Ev.cmin = 1) => Ev.rmin1e6 * n <= 1000000 + n)
                     /\ ((n > 1 /\ Ev.cmax = 1) => (1000000 - Ev.rmax1e6) * n <= 1000000 + n)
                     \* ... whichever query comes first
                     /\ ((n > 1 /\ Ev.cmin = 1) => Ev.rminf1e6 * n <= 1000000 + n)
                     /\ ((n > 1 /\ Ev.cmax = 1) => (1000000 - Ev.rmaxf1e6) * n <= 1000000 + n)
     /\ On("C10") => (n > 0 =>
          /\ NonDecreasing(Ev.rs)                          \* rank monotone on the grid of v
          /\ \A i \in 1..Len(Ev.rs) : Ev.r0 <= Ev.rs[i] /\ Ev.rs[i] <= Ev.r1     \* in [0, 1]
          /\ Ev.rbelow = Ev.r0 /\ Ev.rabove = Ev.r1        \* 0 below min, 1 above max
          /\ NonDecreasing(Ev.qs)                          \* quantile monotone on the grid of q
          /\ \A i \in 1..Len(Ev.qs) : Ev.min <= Ev.qs[i] /\ Ev.qs[i] <= Ev.max   \* in [min, max]
          /\ Ev.qs[1] = Ev.min /\ Ev.qs[Len(Ev.qs)] = Ev.max                     \* min at 0, max at 1
          /\ Ev.first_bad = <<>>                           \* answers do not depend on which query flushes the buffer
          /\ Ev.cdf_ok /\ Ev.pmf_ok /\ Ev.empty_split_ok   \* cdf = rank at the split points, pmf sums to 1
          \* rank(quantile(q)) within the digest's resolution of q (10^-6 units)
          /\ \A i \in 1..Len(Ev.rq) : Ev.rq[i] - Ev.q6[i] <= Ev.res6 /\ Ev.q6[i] - Ev.rq[i] <= Ev.res6)
  /\ UNCHANGED <<cnt, km>>

\* a digest taken from the specification's enumeration (TDigest.tla), loaded from an image built by
\* the harness: every rank / quantile answer must equal the specification's exact rational
TrLoad ==
  /\ IsEv("DLoad")
  /\ (On("C10") \/ On("C13")) => (Ev.bad = <<>> /\ Ev.loaded)
  /\ UNCHANGED <<cnt, km>>

TrPanic == IsEv("Panic") /\ FALSE /\ UNCHANGED <<cnt, km>>

TNext == TrRun \/ TrNew \/ TrFrom \/ TrUpd \/ TrMerge \/ TrCopy \/ TrCont \/ TrChk \/ TrLoad \/ TrPanic
TSpec == TInit /\ [][TNext]_tvars

Accepted ==
  LET d == TLCGet("stats").diameter IN
  IF d - 1 = Len(Rec) THEN TRUE
  ELSE Print(<<"UNMATCHED", d, Rec[d]>>, FALSE)
===============================================================================
