---------------------------- MODULE Gen_HashStream ----------------------------
(* Behaviour generator: every composition (chunking) of every length <= MaxLen *)
(* as a sequence of write lengths.  One REPLAY line per behaviour.             *)
EXTENDS HashStream, TLC, Json

VARIABLE hist   \* the sequence of write lengths so far

GInit == Init /\ hist = <<>>
GNext == \E len \in 1..MaxChunk : Write(len) /\ hist' = Append(hist, len)
GSpec == GInit /\ [][GNext]_<<vars, hist>>

\* every state is the end of one behaviour (one chunking of n bytes)
Emit == hist # <<>> => PrintT(<<"REPLAY", ToJson(hist)>>)
GInv == Inv /\ Emit
===============================================================================
