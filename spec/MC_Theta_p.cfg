\* sampling: initial theta below some hashes (screened), k = 2, rf = 0 (table at max size from the start)
CONSTANTS MinLg = 1  StrideBits = 1  LgNom = 1  Rf = 0  MaxH = 8  Th0 = 6  MaxOps = 9
SPECIFICATION Spec
INVARIANT Inv
PROPERTY ThetaMonotone
CHECK_DEADLOCK FALSE
