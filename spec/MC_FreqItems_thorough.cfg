CONSTANTS MinLg = 3  MaxSample = 1024  LgMax = 3  MaxOps = 6  Weights = {1, 2}
SPECIFICATION Spec
INVARIANT Inv
CHECK_DEADLOCK FALSE
