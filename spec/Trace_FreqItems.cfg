CONSTANTS MinLg = 3  MaxSample = 1024
          Check = {"C07", "C11", "C18", "C12"}
SPECIFICATION TSpec
POSTCONDITION Accepted
CHECK_DEADLOCK FALSE
