CONSTANTS NumCols = 7  WinBits = 2  SpNum = 3  SpDen = 32  OffBase = 19  LgK = 1
SPECIFICATION Spec
INVARIANT Inv
CHECK_DEADLOCK FALSE
