------------------------------ MODULE Trace_Bulk ------------------------------
(* Trace specification for bulk scenarios at the documented configuration      *)
(* extremes (C17) and for size checkpoints of long streams (C18).  The state   *)
(* of the sketches is too large for TLC here (2^21 .. 2^26 registers / rows),  *)
(* so the specification tracks scalars only: every step is a valid public      *)
(* operation (Bulk), a Panic event is never explainable, and Size checkpoints  *)
(* carry the configuration-implied bound evaluated by the specification.       *)
EXTENDS Integers, Sequences, FiniteSets, TLC, Json, IOUtils

CONSTANT Check
Rec == ndJsonDeserialize(IOEnv.TRACE)
VARIABLES l, over, total     \* CPC images above max_serialized_bytes / CPC checkpoints seen
tvars == <<l, over, total>>
Ev == Rec[l]
IsEv(op) == l <= Len(Rec) /\ Ev.op = op /\ l' = l + 1
On(p) == p \in Check
P2(n) == 2 ^ n

TInit == l = 1 /\ over = 0 /\ total = 0
TrRun == IsEv("Run") /\ UNCHANGED <<over, total>>

\* a batch of valid public operations that completed; the release and the checked build agree
TrBulk == IsEv("Bulk") /\ (On("C17") => Ev.ok) /\ UNCHANGED <<over, total>>

(* ---- C18: size bounded by configuration ------------------------------------------------ *)
HllLen(e) ==
  CASE e.mode = "list" -> 8 + 4 * e.count
    [] e.mode = "set"  -> 12 + 4 * e.count
    [] e.mode = "arr"  -> 40 + 4 * e.naux + (CASE e.type = 4 -> P2(e.lgk) \div 2
                                               [] e.type = 6 -> (3 * P2(e.lgk)) \div 4 + 1
                                               [] e.type = 8 -> P2(e.lgk))

SizeOK(e) ==
  CASE e.fam = "hll"   -> /\ e.len = HllLen(e)
                          /\ ("maxk" \in DOMAIN e => e.lgk <= e.maxk)      \* a union result: no finer than lg_max_k
                          /\ (e.mode = "list" => e.count < 8)
                          \* (a sketch that started from a decoded coupon-set image keeps a table no larger than
                          \* the larger of the configuration's and the image's, lgarr0)
                          /\ (e.mode = "set" =>
                                IF "lgarr0" \in DOMAIN e
                                THEN 4 * e.count <= 3 * P2(IF e.lgarr0 > e.lgk - 3 THEN e.lgarr0 ELSE e.lgk - 3)
                                ELSE 4 * e.count <= 3 * P2(e.lgk - 3) /\ e.lgk >= 8)
    [] e.fam = "theta" -> /\ e.retained <= (15 * P2(e.lgk + 1)) \div 16
                          /\ (e.trimmed => e.retained <= P2(e.lgk))
    [] e.fam = "fi"    -> e.active <= (3 * P2(e.lgmax)) \div 4
    [] e.fam = "bloom" -> e.len = (IF e.used = 0 THEN 24 ELSE 32 + e.cap \div 8)
    [] e.fam = "cm"    -> e.len = (IF e.empty THEN 16 ELSE 24 + 8 * e.d * e.w)
    [] e.fam = "td"    -> e.nc <= 2 * e.k + 30 /\ e.len <= 32 + 16 * (2 * e.k + 30)
    [] e.fam = "cpc"   -> TRUE       \* counted: see TrEnd
    [] e.fam = "cpcu"  -> e.rlgk <= e.ulgk   \* a union result: never finer than the union was configured; size counted likewise

TrSize ==
  /\ IsEv("Size")
  /\ On("C18") => SizeOK(Ev)
  /\ IF Ev.fam \in {"cpc", "cpcu"} THEN over' = over + (IF Ev.len > Ev.maxlen THEN 1 ELSE 0) /\ total' = total + 1
     ELSE UNCHANGED <<over, total>>

\* CPC images exceed max_serialized_bytes(lg_k) no more often than the documented 0.1%. Allowed(n): the
\* smallest t with P(Binomial(n, 0.001) > t) < 10^-9, tabulated (all CPC checkpoints of a run are written
\* to one trace file, so that a systematic excess is not diluted over the shards)
Allowed(n) == IF n <= 100 THEN 6 ELSE IF n <= 200 THEN 7 ELSE IF n <= 300 THEN 8 ELSE IF n <= 500 THEN 9
              ELSE IF n <= 700 THEN 10 ELSE IF n <= 1000 THEN 11 ELSE IF n <= 1500 THEN 13 ELSE IF n <= 2000 THEN 15
              ELSE IF n <= 3000 THEN 18 ELSE IF n <= 4000 THEN 21 ELSE IF n <= 6000 THEN 26 ELSE 30
TrEnd ==
  /\ IsEv("End")
  /\ On("C18") => (total <= 8000 /\ over <= Allowed(total))
  /\ UNCHANGED <<over, total>>

TrPanic == IsEv("Panic") /\ FALSE /\ UNCHANGED <<over, total>>

TNext == TrRun \/ TrBulk \/ TrSize \/ TrEnd \/ TrPanic
TSpec == TInit /\ [][TNext]_tvars
Accepted ==
  LET d == TLCGet("stats").diameter IN
  IF d - 1 = Len(Rec) THEN TRUE ELSE Print(<<"UNMATCHED", d, Rec[d]>>, FALSE)
===============================================================================
