------------------------------ MODULE Trace_Bulk ------------------------------
(* Trace specification for bulk scenarios at the documented configuration      *)
(* extremes (C17) and for size checkpoints of long streams (C18).  The state   *)
(* of the sketches is too large for TLC here (2^21 .. 2^26 registers / rows),  *)
(* so the specification tracks scalars only: every step is a valid public      *)
(* operation (Bulk), a Panic event is never explainable, and Size checkpoints  *)
(* carry the configuration-implied bound evaluated by the specification.       *)
EXTENDS Integers, Sequences, FiniteSets, TLC, Json, IOUtils

CONSTANT Check
Rec == ndJsonDeserialize(IOEnv.TRACE)
VARIABLES l, over, total     \* CPC images above max_serialized_bytes / CPC checkpoints seen
tvars == <<l, over, total>>
Ev == Rec[l]
IsEv(op) == l <= Len(Rec) /\ Ev.op = op /\ l' = l + 1
On(p) == p \in Check
P2(n) == 2 ^ n

TInit == l = 1 /\ over = 0 /\ total = 0
TrRun == IsEv("Run") /\ UNCHANGED <<over, total>>

\* a batch of valid public operations that completed; the release and the checked build agree
TrBulk == IsEv("Bulk") /\ (On("C17") => Ev.ok) /\ UNCHANGED <<over, total>>

(* ---- C18: size bounded by configuration ------------------------------------------------ *)
HllLen(e) ==
  CASE e.mode = "list" -> 8 + 4 * e.count
    [] e.mode = "set"  -> 12 + 4 * e.count
    [] e.mode = "arr"  -> 40 + 4 * e.naux + (CASE e.type = 4 -> P2(e.lgk) \div 2
                                               [] e.type = 6 -> (3 * P2(e.lgk)) \div 4 + 1
                                               [] e.type = 8 -> P2(e.lgk))

SizeOK(e) ==
  CASE e.fam = "hll"   -> /\ e.len = HllLen(e)
                          /\ (e.mode = "list" => e.count < 8)
                          /\ (e.mode = "set" => 4 * e.count <= 3 * P2(e.lgk - 3) /\ e.lgk >= 8)
    [] e.fam = "theta" -> /\ e.retained <= (15 * P2(e.lgk + 1)) \div 16
                          /\ (e.trimmed => e.retained <= P2(e.lgk))
    [] e.fam = "fi"    -> e.active <= (3 * P2(e.lgmax)) \div 4
    [] e.fam = "bloom" -> e.len = (IF e.used = 0 THEN 24 ELSE 32 + e.cap \div 8)
    [] e.fam = "cm"    -> e.len = (IF e.empty THEN 16 ELSE 24 + 8 * e.d * e.w)
    [] e.fam = "td"    -> e.nc <= 2 * e.k + 30 /\ e.len <= 32 + 16 * (2 * e.k + 30)
    [] e.fam = "cpc"   -> TRUE       \* counted: see CpcRateOK

TrSize ==
  /\ IsEv("Size")
  /\ On("C18") => SizeOK(Ev)
  /\ IF Ev.fam = "cpc" THEN over' = over + (IF Ev.len > Ev.maxlen THEN 1 ELSE 0) /\ total' = total + 1
     ELSE UNCHANGED <<over, total>>

\* CPC images exceed max_serialized_bytes(lg_k) no more often than the documented 0.1%: with at most
\* 4000 checkpoints per trace file the binomial(n, 0.001) tail above 12 is below 10^-9
TrEnd ==
  /\ IsEv("End")
  /\ On("C18") => (total <= 4000 /\ over <= 12)
  /\ UNCHANGED <<over, total>>

TrPanic == IsEv("Panic") /\ FALSE /\ UNCHANGED <<over, total>>

TNext == TrRun \/ TrBulk \/ TrSize \/ TrEnd \/ TrPanic
TSpec == TInit /\ [][TNext]_tvars
Accepted ==
  LET d == TLCGet("stats").diameter IN
  IF d - 1 = Len(Rec) THEN TRUE ELSE Print(<<"UNMATCHED", d, Rec[d]>>, FALSE)
===============================================================================
