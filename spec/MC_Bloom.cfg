CONSTANTS MaxOps = 7
SPECIFICATION Spec
INVARIANT Inv
CHECK_DEADLOCK FALSE
