---------------------------- MODULE MC_FreqItems ----------------------------
(* Exhaustive toy instance at the real minimum map size (8 slots, capacity 6): *)
(* eight items whose home slots cluster (with wrap-around), weights 1..2,      *)
(* every sequence of updates, merges of catalogue sketches (one emptied by     *)
(* its last purge, one with a survivor and an offset, one exact), and reset.   *)
EXTENDS FreqItems

CONSTANTS LgMax, MaxOps, Weights

Items == { <<1, 0>>, <<2, 0>>, <<3, 1>>, <<4, 7>>, <<5, 7>>, <<6, 15>>, <<7, 6>>, <<8, 2>> }
It(i) == CHOOSE x \in Items : x[1] = i

VARIABLES a, ta, wa, ops
vars == <<a, ta, wa, ops>>

Zero == [x \in Items |-> 0]

\* catalogue: <<sequence of (item id, weight)>>
CatSeq == << [i \in 1..7 |-> <<i, 1>>],                                  \* purge removes every counter
             [i \in 1..7 |-> <<i, IF i = 7 THEN 3 ELSE 2>>],              \* purge leaves one survivor
             << <<1, 5>>, <<4, 1>>, <<8, 1>> >> >>                         \* exact mode
Build(s) == FoldLeft(LAMBDA acc, e : Update(acc, It(e[1]), e[2]), NewFI(LgMax), s)
TruthOf(s) == [x \in Items |-> FoldLeft(LAMBDA acc, e : IF e[1] = x[1] THEN acc + e[2] ELSE acc, 0, s)]
WeightOf(s) == FoldLeft(LAMBDA acc, e : acc + e[2], 0, s)

\* five counters are already in place: two more distinct items reach the purge
Pre == << <<1, 2>>, <<2, 1>>, <<3, 1>>, <<4, 2>>, <<5, 1>> >>
Init == a = Build(Pre) /\ ta = TruthOf(Pre) /\ wa = WeightOf(Pre) /\ ops = 0

Upd(x, w) == a' = Update(a, x, w) /\ ta' = [ta EXCEPT ![x] = @ + w] /\ wa' = wa + w
MergeCat(i) == /\ a' = Merge(a, Build(CatSeq[i]))
               /\ ta' = [x \in Items |-> ta[x] + TruthOf(CatSeq[i])[x]]
               /\ wa' = wa + WeightOf(CatSeq[i])
DoReset == a' = Reset(a) /\ ta' = Zero /\ wa' = 0

Next == /\ ops < MaxOps /\ ops' = ops + 1
        /\ \/ \E x \in Items, w \in Weights : Upd(x, w)
           \/ \E i \in 1..Len(CatSeq) : MergeCat(i)
           \/ DoReset

Spec == Init /\ [][Next]_vars

CatOK == \A i \in 1..Len(CatSeq) :
           LET b == Build(CatSeq[i]) IN
           Brackets(b, TruthOf(CatSeq[i]), Items) /\ MapOK(b) /\ WeightExact(b, WeightOf(CatSeq[i]))

Inv == /\ Brackets(a, ta, Items) /\ WeightExact(a, wa) /\ Frequent(a, ta, Items) /\ MapOK(a)
       /\ (ops = 0 => CatOK)
===============================================================================
