--------------------------------- MODULE Wide ---------------------------------
(* Unsigned integers wider than TLC's 32-bit machine integers, as little-endian *)
(* sequences of N limbs in base B (the trace specifications use B = 2^16, N = 4 *)
(* for the 64-bit counters and weights of the implementation; MC_Wide checks    *)
(* the operators against ordinary integers for a small base).                   *)
EXTENDS Integers, Sequences, FiniteSets, SequencesExt

CONSTANTS B, N

Limbs == [1..N -> 0..(B - 1)]
WZero == [i \in 1..N |-> 0]
WOf(x) == [i \in 1..N |-> (x \div (B ^ (i - 1))) % B]          \* for x < B^N that TLC can hold

\* carries of a + b, limb by limb: Carry(a, b, i) is the carry INTO limb i
RECURSIVE Carry(_, _, _)
Carry(a, b, i) == IF i = 1 THEN 0 ELSE (a[i - 1] + b[i - 1] + Carry(a, b, i - 1)) \div B
WAdd(a, b) == [i \in 1..N |-> (a[i] + b[i] + Carry(a, b, i)) % B]
WAddFits(a, b) == (a[N] + b[N] + Carry(a, b, N)) \div B = 0  \* no overflow out of the top limb

\* a - b for a >= b, limb by limb: Borrow(a, b, i) is the borrow OUT OF limb i - 1 (into limb i)
RECURSIVE Borrow(_, _, _)
Borrow(a, b, i) == IF i = 1 THEN 0 ELSE IF a[i - 1] - b[i - 1] - Borrow(a, b, i - 1) < 0 THEN 1 ELSE 0
WSub(a, b) == [i \in 1..N |-> (a[i] - b[i] - Borrow(a, b, i) + B) % B]

\* floor(a / 2), B even
WHalf(a) == [i \in 1..N |-> (a[i] \div 2) + (IF i < N THEN (a[i + 1] % 2) * (B \div 2) ELSE 0)]

\* comparison from the most significant limb down
RECURSIVE LeqFrom(_, _, _)
LeqFrom(a, b, i) ==
  IF i = 0 THEN TRUE
  ELSE IF a[i] < b[i] THEN TRUE
  ELSE IF a[i] > b[i] THEN FALSE
  ELSE LeqFrom(a, b, i - 1)
WLeq(a, b) == LeqFrom(a, b, N)
WMin(S) == CHOOSE x \in S : \A y \in S : WLeq(x, y)

\* a * m for a small multiplier m (m <= B / 2 keeps every product inside TLC's integers when B = 2^16)
RECURSIVE MulCarry(_, _, _)
MulCarry(a, m, i) == IF i = 1 THEN 0 ELSE (a[i - 1] * m + MulCarry(a, m, i - 1)) \div B
WMulSmall(a, m) == [i \in 1..N |-> (a[i] * m + MulCarry(a, m, i)) % B]
\* a * 2^s (bits shifted out of the top limb are dropped); B is a power of two
LgB == CHOOSE n \in 1..30 : 2 ^ n = B
WShlLimbs(a, q) == [i \in 1..N |-> IF i - q >= 1 THEN a[i - q] ELSE 0]
WShl(a, s) == WShlLimbs(WMulSmall(a, 2 ^ (s % LgB)), s \div LgB)
\* a small non-negative integer (below B * B) as limbs
WOfSmall(x) == [i \in 1..N |-> IF i = 1 THEN x % B ELSE IF i = 2 THEN (x \div B) % B ELSE 0]

\* (a fold over values: a recursive definition would re-evaluate its lazily bound argument at every use)
WSum(s) == FoldLeft(WAdd, WZero, s)
===============================================================================
