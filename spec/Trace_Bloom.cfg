CONSTANTS Check = {"C09", "C11", "C18"}
SPECIFICATION TSpec
POSTCONDITION Accepted
CHECK_DEADLOCK FALSE
