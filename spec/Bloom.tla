-------------------------------- MODULE Bloom --------------------------------
(* Bloom filter (bloom/sketch.rs): a set of bit positions plus the cached      *)
(* population count.  The k positions of an item (double hashing with XXH64)   *)
(* are an argument: p = <<pos_1, ..., pos_k>>.                                 *)
EXTENDS Integers, Sequences, FiniteSets, TLC

NewBF(cap, k) == [cap |-> cap, k |-> k, bits |-> {}, nset |-> 0]

PosSet(p) == {p[i] : i \in 1..Len(p)}

\* set_bits: the count grows by the number of bits that were clear
Insert(st, p) == [st EXCEPT !.bits = @ \cup PosSet(p),
                            !.nset = @ + Cardinality(PosSet(p) \ st.bits)]

\* contains: an empty filter answers false without looking; otherwise all k bits must be set
Contains(st, p) == st.nset # 0 /\ PosSet(p) \subseteq st.bits
\* contains_and_insert checks the bits themselves (no emptiness shortcut)
WasPresent(st, p) == PosSet(p) \subseteq st.bits

Compatible(a, b) == a.cap = b.cap /\ a.k = b.k
Union(a, b) == [a EXCEPT !.bits = @ \cup b.bits, !.nset = Cardinality(a.bits \cup b.bits)]
Intersect(a, b) == [a EXCEPT !.bits = @ \cap b.bits, !.nset = Cardinality(a.bits \cap b.bits)]
Invert(st) == [st EXCEPT !.bits = (0..(st.cap - 1)) \ @, !.nset = st.cap - @]
Reset(st) == [st EXCEPT !.bits = {}, !.nset = 0]

(* ---- C09 ----------------------------------------------------------------- *)
\* bits_used always equals the population count of the array
CountOK(st) == st.nset = Cardinality(st.bits) /\ st.bits \subseteq 0..(st.cap - 1)

\* no false negatives: every inserted item (ins: set of position tuples) is contained
NoFalseNeg(st, ins) == \A p \in ins : Contains(st, p)

\* while only inserts / unions happened, the array is exactly the reference positions
A_Bits(ins) == UNION {PosSet(p) : p \in ins}
===============================================================================
