CONSTANTS B = 16  MaxLen = 0  MaxChunk = 0
SPECIFICATION TSpec
POSTCONDITION Accepted
CHECK_DEADLOCK FALSE
