CONSTANTS B = 16  MaxLen = 50  MaxChunk = 50
SPECIFICATION Spec
INVARIANT Inv
CHECK_DEADLOCK FALSE
