--------------------------- MODULE Trace_Malformed ---------------------------
(* C14: verdicts of feeding corrupted images to the deserialize entry points.  *)
(* The specification never predicts Ok versus Err (the property allows both):  *)
(* a batch of Ok/Err verdicts is always explainable, a panic, an abort, a      *)
(* runaway allocation or a stall never is.                                     *)
EXTENDS Integers, Sequences, TLC, Json, IOUtils

CONSTANT Check
Rec == ndJsonDeserialize(IOEnv.TRACE)
VARIABLE l
Ev == Rec[l]
IsEv(op) == l <= Len(Rec) /\ Ev.op = op /\ l' = l + 1

TInit == l = 1
TrRun == IsEv("Run")
TrBatch == IsEv("MBatch") /\ Ev.ok >= 0 /\ Ev.err >= 0
TrBad == IsEv("MBad") /\ FALSE

TNext == TrRun \/ TrBatch \/ TrBad
TSpec == TInit /\ [][TNext]_l
Accepted ==
  LET d == TLCGet("stats").diameter IN
  IF d - 1 = Len(Rec) THEN TRUE ELSE Print(<<"UNMATCHED", d, Rec[d]>>, FALSE)
===============================================================================
