----------------------------- MODULE ThetaFormat -----------------------------
(* Binary layout of compact theta sketch images (family 3), serial versions 1-4. *)
(* 63-bit hashes do not fit TLC integers: an entry's bytes are passed in as 8     *)
(* little-endian byte values; the specification decides which fields exist, their *)
(* order, the flag and count bytes, and (v4) the delta / bit-packing arithmetic,  *)
(* done here on bit sequences.                                                    *)
EXTENDS Theta

LE(x, n) == [i \in 1..n |-> (x \div (256 ^ (i - 1))) % 256]
Flat(ss) == FoldLeft(LAMBDA acc, s : acc \o s, <<>>, ss)

FLAG_READ_ONLY == 2
FLAG_EMPTY == 4
FLAG_COMPACT == 8
FLAG_ORDERED == 16

\* c: compact state [entries, theta, empty, ordered]; est: theta < 1.0
PreLongsV3(c, est) == IF est THEN 3 ELSE IF c.empty \/ Len(c.entries) = 1 THEN 1 ELSE 2
FlagsOf(c) == FLAG_READ_ONLY + FLAG_COMPACT + (IF c.empty THEN FLAG_EMPTY ELSE 0) + (IF c.ordered THEN FLAG_ORDERED ELSE 0)

\* serial version 3.  eb: the entries' bytes (8 each), tb: theta's 8 bytes, sh: seed hash (2 bytes)
EncV3(c, est, eb, tb, sh) ==
  LET pre == PreLongsV3(c, est) IN
  <<pre, 3, 3, 0, 0, FlagsOf(c)>> \o sh
  \o (IF pre > 1 THEN LE(Len(c.entries), 4) \o <<0, 0, 0, 0>> ELSE <<>>)
  \o (IF est THEN tb ELSE <<>>)
  \o Flat(eb)

\* serial version 2 (no flags semantics; 1 = empty, 2 = exact, 3 = estimating; entries ordered)
EncV2(c, est, eb, tb, sh) ==
  LET pre == IF c.empty THEN 1 ELSE IF est THEN 3 ELSE 2 IN
  <<pre, 2, 3, 0, 0, 0>> \o sh
  \o (IF pre > 1 THEN LE(Len(c.entries), 4) \o <<0, 0, 0, 0>> ELSE <<>>)
  \o (IF pre > 2 THEN tb ELSE <<>>)
  \o Flat(eb)

\* serial version 1: always three preamble longs, no seed hash
EncV1(c, eb, tb) ==
  <<3, 1, 3, 0, 0, 0, 0, 0>> \o LE(Len(c.entries), 4) \o <<0, 0, 0, 0>> \o tb \o Flat(eb)

(* ---- serial version 4: deltas of the ordered entries, bit-packed MSB first ------------ *)
ByteBits(b) == [i \in 1..8 |-> (b \div (2 ^ (8 - i))) % 2]
\* 64 bits, most significant first, of an 8-byte little-endian value
Bits64(le8) == Flat([i \in 1..8 |-> ByteBits(le8[9 - i])])
\* a - b on 64-bit sequences (a >= b), schoolbook subtraction from the least significant bit
SubBits(a, b) ==
  LET RECURSIVE S(_, _, _)
      S(i, borrow, acc) ==
        IF i = 0 THEN acc
        ELSE LET d == a[i] - b[i] - borrow IN
             S(i - 1, IF d < 0 THEN 1 ELSE 0, <<(d + 2) % 2>> \o acc)
  IN S(64, 0, <<>>)
LeadingZeros(bs) == IF \E i \in 1..64 : bs[i] = 1 THEN (CHOOSE i \in 1..64 : bs[i] = 1 /\ \A j \in 1..(i - 1) : bs[j] = 0) - 1 ELSE 64
Zero64 == [i \in 1..64 |-> 0]
Deltas(eb) == [i \in 1..Len(eb) |-> SubBits(Bits64(eb[i]), IF i = 1 THEN Zero64 ELSE Bits64(eb[i - 1]))]
EntryBits(ds) == LET S == {64 - LeadingZeros(ds[i]) : i \in 1..Len(ds)} IN CHOOSE x \in S : \A y \in S : y <= x
NumEntriesBytes(n) == IF n = 0 THEN 0 ELSE IF n < 256 THEN 1 ELSE IF n < 65536 THEN 2 ELSE IF n < 16777216 THEN 3 ELSE 4
BitsToBytes(bs) ==
  LET padded == bs \o [i \in 1..((8 - (Len(bs) % 8)) % 8) |-> 0] IN
  [j \in 1..(Len(padded) \div 8) |->
     128 * padded[8*j-7] + 64 * padded[8*j-6] + 32 * padded[8*j-5] + 16 * padded[8*j-4]
     + 8 * padded[8*j-3] + 4 * padded[8*j-2] + 2 * padded[8*j-1] + padded[8*j]]
\* blocks of 8 deltas are byte aligned; the tail is packed from a fresh byte: one contiguous stream
EncV4(c, est, eb, tb, sh) ==
  LET ds == Deltas(eb)  w == EntryBits(ds)  n == Len(eb)
      stream == Flat([i \in 1..n |-> SubSeq(ds[i], 65 - w, 64)]) IN
  <<IF est THEN 2 ELSE 1, 4, 3, w, NumEntriesBytes(n), FLAG_READ_ONLY + FLAG_COMPACT + FLAG_ORDERED>> \o sh
  \o (IF est THEN tb ELSE <<>>) \o LE(n, NumEntriesBytes(n)) \o BitsToBytes(stream)

\* the writer uses v4 only for ordered sketches with entries (a single entry only when estimating)
SuitableForV4(c, est) == c.ordered /\ Len(c.entries) > 0 /\ (Len(c.entries) # 1 \/ est)

\* binding of the passed bytes to the abstract entries: low 30 bits and order
Low30(le8) == le8[1] + 256 * le8[2] + 65536 * le8[3] + 16777216 * (le8[4] % 64)
BytesMatch(c, eb) ==
  /\ Len(eb) = Len(c.entries)
  /\ \A i \in 1..Len(eb) : Low30(eb[i]) = c.entries[i][2]
===============================================================================
