--------------------------- MODULE Trace_FreqItems ---------------------------
(* Trace validation for FrequentItemsSketch<i64>: the specification replays    *)
(* every recorded call, keeps the exact frequency of every item as a ghost,    *)
(* compares the whole counter map at checkpoints and evaluates C07 for every   *)
(* item of the run's alphabet (tracked or not).                                *)
EXTENDS FreqItems, Json, IOUtils

CONSTANT Check

Rec == ndJsonDeserialize(IOEnv.TRACE)

VARIABLES l, obj, gh     \* gh[i] = [truth |-> [item id -> count], w |-> total, uni |-> one map size only]
tvars == <<l, obj, gh>>

Ev == Rec[l]
IsEv(op) == l <= Len(Rec) /\ Ev.op = op /\ l' = l + 1
On(p) == p \in Check
Put(f, i, v) == (i :> v) @@ f
X(e) == <<e[1], e[2]>>

TGet(t, id) == IF id \in DOMAIN t THEN t[id] ELSE 0
TAdd(t, id, w) == (id :> (TGet(t, id) + w)) @@ t
TSum(t, u) == [id \in (DOMAIN t) \cup (DOMAIN u) |-> TGet(t, id) + TGet(u, id)]

\* scalars after every call, including the configured maximum the sketch reports about itself
Sc(st) == [na |-> st.nAct, off |-> st.offset, wt |-> st.weight, lg |-> st.lgCur, lgm |-> st.lgMax, mcap |-> CapOf(st.lgMax)]

\* C07 for one item
ItemOK(st, g, x) ==
  /\ LB(st, x) <= TGet(g.truth, x[1])
  /\ TGet(g.truth, x[1]) <= UB(st, x)

\* C07 scalars: exact weight; error bound for sketches of one map size up to 1024
ScalarsOK(st, g) ==
  /\ st.weight = g.w
  /\ (g.uni /\ st.lgMax <= 10) => 2 * st.offset * P2(st.lgMax) <= 7 * st.weight
  /\ On("C18") => st.nAct <= CapOf(st.lgMax)

(* ---- binary layout (family 10, serial version 1) of an i64 / u64 / string sketch: one preamble long when empty, ----
   ---- else 4 longs, then the active counters in slot order, then their items in the same order ---- *)
LE(x, n) == [i \in 1..n |-> (x \div (256 ^ (i - 1))) % 256]
Val8(x) == LE(x, 4) \o <<0, 0, 0, 0>>
FlatS(ss) == FoldLeft(LAMBDA acc, s : acc \o s, <<>>, ss)
\* an item on the wire: the 8 little-endian bytes of an i64 / u64; for a string its UTF-8 bytes
\* preceded by their number as a 4-byte little-endian integer (raw: the item's own bytes, opaque here)
ItemEnc(ty, raw) ==
  LET r == [j \in 1..Len(raw) |-> raw[j]] IN
  IF ty = "str" THEN LE(Len(r), 4) \o r ELSE r
\* ib[i]: the encoded item of the i-th active slot
EncFI(st, ib) ==
  LET act == SelectSeq([i \in 1..Size(st) |-> i - 1], LAMBDA p : st.m.dr[p] > 0) IN
  IF IsEmpty(st) THEN <<1, 1, 10, st.lgMax, st.lgCur, 5, 0, 0>>
  ELSE <<4, 1, 10, st.lgMax, st.lgCur, 0, 0, 0>> \o LE(st.nAct, 4) \o <<0, 0, 0, 0>>
       \o Val8(st.weight) \o Val8(st.offset)
       \o FlatS([i \in 1..Len(act) |-> Val8(st.m.val[act[i]])]) \o FlatS(ib)

TInit == l = 1 /\ obj = <<>> /\ gh = <<>>
TrRun == IsEv("Run") /\ obj' = <<>> /\ gh' = <<>>

TrNew ==
  /\ IsEv("FNew")
  /\ obj' = Put(obj, Ev.id, NewFI(Ev.lgmax))
  /\ gh' = Put(gh, Ev.id, [truth |-> <<>>, w |-> 0, uni |-> TRUE])

\* a sketch decoded from an empty image: nothing tracked, the map size the image states (a writer may
\* start from a map larger than the minimum), and written back as the same image
FromEmpty(lgmax, lgcur) ==
  [NewFI(lgmax) EXCEPT !.lgCur = lgcur, !.m = EmptyMap(lgcur), !.curCap = CapOf(lgcur)]
TrFrom ==
  /\ IsEv("FFrom")
  /\ obj' = Put(obj, Ev.id, FromEmpty(Ev.lgmax, Ev.lgcur))
  /\ gh' = Put(gh, Ev.id, [truth |-> <<>>, w |-> 0, uni |-> TRUE])
  /\ (On("C13") \/ On("C11") \/ On("C07")) => (Sc(obj'[Ev.id]) = Ev.st /\ Ev.same /\ Ev.empty)

TrUpd ==
  /\ IsEv("FUpd")
  /\ obj' = [obj EXCEPT ![Ev.id] = Update(@, X(Ev.x), Ev.w)]
  /\ gh' = [gh EXCEPT ![Ev.id] = [@ EXCEPT !.truth = TAdd(@, Ev.x[1], Ev.w), !.w = @ + Ev.w]]
  /\ LET n == obj'[Ev.id] IN
     /\ On("C07") => (Sc(n) = Ev.st /\ ItemOK(n, gh'[Ev.id], X(Ev.x)) /\ ScalarsOK(n, gh'[Ev.id]))
     /\ On("C18") => (Ev.st.na <= Ev.st.mcap /\ Ev.st.mcap = CapOf(n.lgMax) /\ Ev.st.lgm = n.lgMax /\ Ev.st.na = n.nAct)
     /\ On("C18") => n.nAct <= CapOf(n.lgMax)

TrMerge ==
  /\ IsEv("FMerge")
  /\ obj' = [obj EXCEPT ![Ev.id] = Merge(@, obj[Ev.src])]
  /\ gh' = [gh EXCEPT ![Ev.id] = [truth |-> TSum(@.truth, gh[Ev.src].truth), w |-> @.w + gh[Ev.src].w,
                                  uni |-> @.uni /\ gh[Ev.src].uni /\ obj[Ev.id].lgMax = obj[Ev.src].lgMax]]
  /\ LET n == obj'[Ev.id] IN
     On("C07") => (Sc(n) = Ev.st /\ ScalarsOK(n, gh'[Ev.id]))

TrReset ==
  /\ IsEv("FReset")
  /\ obj' = [obj EXCEPT ![Ev.id] = Reset(@)]
  /\ gh' = [gh EXCEPT ![Ev.id] = [truth |-> <<>>, w |-> 0, uni |-> TRUE]]
  /\ On("C07") => Sc(obj'[Ev.id]) = Ev.st

Slots(st) == [i \in 1..Size(st) |-> <<st.m.key[i - 1][1], st.m.key[i - 1][2], st.m.val[i - 1], st.m.dr[i - 1]>>]
EvSlots == [i \in 1..Len(Ev.slots) |-> <<Ev.slots[i][1], Ev.slots[i][2], Ev.slots[i][3], Ev.slots[i][4]>>]
IdsOf(S) == {x[1] : x \in S}
SeqSet(s) == {s[i] : i \in 1..Len(s)}

\* checkpoint: the whole counter map, and every query answer for every item of the alphabet
TrChk ==
  /\ IsEv("FChk")
  /\ LET st == obj[Ev.id]  g == gh[Ev.id] IN
     On("C07") =>
       /\ Slots(st) = EvSlots
       /\ MapOK(st)
       /\ ScalarsOK(st, g)
       /\ \A i \in 1..Len(Ev.q) :
            LET x == X(Ev.q[i]) IN
            /\ Ev.q[i][3] = LB(st, x) /\ Ev.q[i][4] = UB(st, x)
            /\ Ev.q[i][5] = (IF Get(st, x) > 0 THEN UB(st, x) ELSE 0)
            /\ ItemOK(st, g, x)
            /\ UB(st, x) - LB(st, x) <= st.offset
       /\ SeqSet(Ev.nfp) = IdsOf(NoFalsePos(st))
       /\ SeqSet(Ev.nfn) = IdsOf(NoFalseNeg(st))
       /\ \A id \in SeqSet(Ev.nfp) : TGet(g.truth, id) > st.offset
       /\ \A id \in DOMAIN g.truth : g.truth[id] > st.offset => id \in SeqSet(Ev.nfn)
       /\ Ev.maxerr = st.offset
  /\ (On("C12") /\ "img" \in DOMAIN Ev) =>
        [i \in 1..Len(Ev.img) |-> Ev.img[i]] = EncFI(obj[Ev.id], [i \in 1..Len(Ev.ib) |-> ItemEnc(Ev.ty, Ev.ib[i])])
  /\ UNCHANGED <<obj, gh>>

\* deserialize(serialize(s)): counters are re-inserted in slot order into a map of the same size
RoundTrip(st) ==
  LET base == [NewFI(st.lgMax) EXCEPT !.lgCur = st.lgCur, !.m = EmptyMap(st.lgCur), !.curCap = CapOf(st.lgCur)]
      act == SelectSeq([i \in 1..Size(st) |-> i - 1], LAMBDA p : st.m.dr[p] > 0)
      r == FoldLeft(LAMBDA acc, p : Update(acc, st.m.key[p], st.m.val[p]), base, act)
  IN IF IsEmpty(st) THEN base ELSE [r EXCEPT !.weight = st.weight, !.offset = st.offset]

TrRT ==
  /\ IsEv("FRT")
  /\ obj' = Put(obj, Ev.to, RoundTrip(obj[Ev.id]))
  /\ gh' = Put(gh, Ev.to, gh[Ev.id])
  /\ LET n == obj'[Ev.to] IN
     \* the image lists the counters in slot order: byte-identical again exactly when the
     \* rebuilt map has the same layout, otherwise identical up to the order of the pairs
     On("C11") => (/\ Slots(n) = EvSlots /\ Sc(n) = Ev.st /\ Ev.samex
                   /\ (Slots(n) = Slots(obj[Ev.id]) => Ev.same))

TrPanic == IsEv("Panic") /\ FALSE /\ UNCHANGED <<obj, gh>>

TNext == TrRun \/ TrNew \/ TrFrom \/ TrUpd \/ TrMerge \/ TrReset \/ TrChk \/ TrRT \/ TrPanic
TSpec == TInit /\ [][TNext]_tvars

Accepted ==
  LET d == TLCGet("stats").diameter IN
  IF d - 1 = Len(Rec) THEN TRUE
  ELSE Print(<<"UNMATCHED", d, Rec[d]>>, FALSE)
===============================================================================
