------------------------------- MODULE TDigest -------------------------------
(* t-digest queries (tdigest/sketch.rs: TDigestView::rank / quantile / cdf /   *)
(* pmf) as pure operators over exact rationals, for ARBITRARY valid digests    *)
(* (sorted means inside [min, max], positive weights) - including the heavy    *)
(* first/last centroids that only deserialized images have.                    *)
(*                                                                             *)
(* A digest is [min, max, cs] with cs a sequence of <<mean, weight>> (integer  *)
(* means and weights in the instances).  A rational is <<num, den>>, den > 0.  *)
EXTENDS Integers, Sequences, FiniteSets, TLC

(* ---- exact rational arithmetic ------------------------------------------ *)
RECURSIVE GCD(_, _)
GCD(a, b) == IF b = 0 THEN a ELSE GCD(b, a % b)
Abs(x) == IF x < 0 THEN -x ELSE x
\* reduced form with a positive denominator (keeps every intermediate value small)
Red(a) == LET s == IF a[2] < 0 THEN -1 ELSE 1
              g == GCD(Abs(a[1]), Abs(a[2])) IN
          IF g = 0 THEN a ELSE <<(s * a[1]) \div g, (s * a[2]) \div g>>
Norm(a) == Red(a)
RI(n) == <<n, 1>>
RAdd(a, b) == Red(<<a[1] * b[2] + b[1] * a[2], a[2] * b[2]>>)
RSub(a, b) == Red(<<a[1] * b[2] - b[1] * a[2], a[2] * b[2]>>)
RMul(a, b) == Red(<<a[1] * b[1], a[2] * b[2]>>)
RDiv(a, b) == Red(<<a[1] * b[2], a[2] * b[1]>>)
RLt(a, b) == a[1] * b[2] < b[1] * a[2]
RLe(a, b) == a[1] * b[2] <= b[1] * a[2]
REq(a, b) == a[1] * b[2] = b[1] * a[2]
RHalf(n) == <<n, 2>>
Undefined == <<0, 0>>                      \* a 0/0 of the floating-point formula
IsDef(a) == a[2] # 0

(* ---- digests -------------------------------------------------------------- *)
N(d) == Len(d.cs)
Mean(d, i) == d.cs[i][1]
Wt(d, i) == d.cs[i][2]
RECURSIVE SumW(_, _, _)
SumW(d, lo, hi) == IF lo > hi THEN 0 ELSE Wt(d, lo) + SumW(d, lo + 1, hi)   \* weights of centroids lo..hi
W(d) == SumW(d, 1, N(d))

Valid(d) ==
  /\ N(d) >= 1
  /\ \A i \in 1..N(d) : Wt(d, i) >= 1
  /\ \A i \in 1..(N(d) - 1) : Mean(d, i) <= Mean(d, i + 1)
  /\ d.min <= Mean(d, 1) /\ Mean(d, N(d)) <= d.max
  \* min and max are samples: each sits in some centroid, alone (weight 1, mean = the extreme) or
  \* with w - 1 other samples of [min, max] (so the centroid's sum leaves room for it).  The first
  \* centroid need not hold the minimum: a heavier centroid of larger mean may have absorbed it
  \* (a decoded heavy-first digest updated with a value between min and that centroid's mean);
  \* such states are written to images like any other.
  /\ \E j \in 1..N(d) : IF Wt(d, j) = 1 THEN Mean(d, j) = d.min
                         ELSE Mean(d, j) * Wt(d, j) <= d.min + (Wt(d, j) - 1) * d.max
  /\ \E j \in 1..N(d) : IF Wt(d, j) = 1 THEN Mean(d, j) = d.max
                         ELSE Mean(d, j) * Wt(d, j) >= d.max + (Wt(d, j) - 1) * d.min
  /\ (W(d) = 1 => d.min = d.max)

(* ---- rank ------------------------------------------------------------------ *)
\* first index (1-based) whose mean is >= v / > v, N+1 if none (the two binary searches)
LowerIdx(d, v) == IF \E i \in 1..N(d) : RLe(v, RI(Mean(d, i)))
                  THEN CHOOSE i \in 1..N(d) : RLe(v, RI(Mean(d, i))) /\ \A j \in 1..(i - 1) : RLt(RI(Mean(d, j)), v)
                  ELSE N(d) + 1
UpperIdx(d, v) == IF \E i \in 1..N(d) : RLt(v, RI(Mean(d, i)))
                  THEN CHOOSE i \in 1..N(d) : RLt(v, RI(Mean(d, i))) /\ \A j \in 1..(i - 1) : RLe(RI(Mean(d, j)), v)
                  ELSE N(d) + 1

\* Between an extreme and the nearest centroid mean the rank runs from the extreme's own sample
\* (weight 1, counted from its far side) up to half that centroid's weight.  A centroid of a single
\* sample that is not the extreme has no sample on that side: the rank stays at its half weight
\* (the reference formula 1 + f * (w/2 - 1) would run backwards there).
TailBase(wt) == IF wt = 1 THEN RHalf(1) ELSE RI(1)

Rank(d, v) ==
  LET w == W(d)  n == N(d)  fm == Mean(d, 1)  lm == Mean(d, n) IN
  IF RLt(v, RI(d.min)) THEN RI(0)
  ELSE IF RLt(RI(d.max), v) THEN RI(1)
  ELSE IF n = 1 THEN RHalf(1)
  ELSE IF RLt(v, RI(fm))
  THEN \* left tail: between min and the first mean sit (w1/2 - 1) samples after the one at min
       IF fm - d.min > 0
       THEN IF REq(v, RI(d.min)) THEN <<1, 2 * w>>
            ELSE RDiv(RAdd(TailBase(Wt(d, 1)), RMul(RDiv(RSub(v, RI(d.min)), RI(fm - d.min)), RSub(RHalf(Wt(d, 1)), TailBase(Wt(d, 1))))), RI(w))
       ELSE RI(0)
  ELSE IF RLt(RI(lm), v)
  THEN IF d.max - lm > 0
       THEN IF REq(v, RI(d.max)) THEN RSub(RI(1), <<1, 2 * w>>)
            ELSE RSub(RI(1), RDiv(RAdd(TailBase(Wt(d, n)), RMul(RDiv(RSub(RI(d.max), v), RI(d.max - lm)), RSub(RHalf(Wt(d, n)), TailBase(Wt(d, n))))), RI(w)))
       ELSE RI(1)
  ELSE \* between two centroid means (equal-mean runs included)
    LET lo0 == LowerIdx(d, v)  up0 == UpperIdx(d, v)
        lo == IF RLt(v, RI(Mean(d, lo0))) THEN lo0 - 1 ELSE lo0
        up == IF up0 = n + 1 \/ RLe(v, RI(Mean(d, up0 - 1))) THEN up0 - 1 ELSE up0
        below == RAdd(RI(SumW(d, 1, lo - 1)), RHalf(Wt(d, lo)))
        delta == RAdd(RSub(RI(SumW(d, lo, up - 1)), RHalf(Wt(d, lo))), RHalf(Wt(d, up)))
    IN IF Mean(d, up) - Mean(d, lo) > 0
       THEN RDiv(RAdd(below, RDiv(RMul(delta, RSub(v, RI(Mean(d, lo)))), RI(Mean(d, up) - Mean(d, lo)))), RI(w))
       ELSE RDiv(RAdd(below, RDiv(delta, RI(2))), RI(w))

(* ---- quantile --------------------------------------------------------------- *)
WAvg(x1, w1, x2, w2) == RDiv(RAdd(RMul(x1, w1), RMul(x2, w2)), RAdd(w1, w2))

\* the loop over adjacent centroid pairs; wsf = weight so far (rational)
RECURSIVE QLoop(_, _, _, _)
QLoop(d, weight, i, wsf) ==
  IF i > N(d) - 1
  THEN \* fall-through of the reference algorithm (not reachable for weight <= W - 1)
       LET lw == Wt(d, N(d))
           z1 == RSub(RSub(weight, RI(W(d))), RHalf(lw))
           z2 == RSub(RHalf(lw), z1) IN
       IF RAdd(z1, z2)[1] = 0 THEN Undefined ELSE WAvg(RI(Mean(d, N(d))), z1, RI(d.max), z2)
  ELSE LET dw == RHalf(Wt(d, i) + Wt(d, i + 1)) IN
       IF RLt(weight, RAdd(wsf, dw))
       THEN LET leftOne == Wt(d, i) = 1  rightOne == Wt(d, i + 1) = 1 IN
            IF leftOne /\ RLt(RSub(weight, wsf), RHalf(1)) THEN RI(Mean(d, i))
            ELSE IF rightOne /\ RLe(RSub(RAdd(wsf, dw), weight), RHalf(1)) THEN RI(Mean(d, i + 1))
            ELSE LET lwt == IF leftOne THEN RHalf(1) ELSE RI(0)
                     rwt == IF rightOne THEN RHalf(1) ELSE RI(0)
                     w1 == RSub(RSub(weight, wsf), lwt)          \* distance from the left centroid
                     w2 == RSub(RSub(RAdd(wsf, dw), weight), rwt)  \* distance to the right centroid
                 IN IF RAdd(w1, w2)[1] = 0 THEN Undefined
                    ELSE WAvg(RI(Mean(d, i)), w2, RI(Mean(d, i + 1)), w1)
       ELSE QLoop(d, weight, i + 1, RAdd(wsf, dw))

Quantile(d, q) ==
  LET w == W(d)  n == N(d)  weight == RMul(q, RI(w))
      fw == Wt(d, 1)  lw == Wt(d, n) IN
  IF RLt(weight, RI(1)) THEN RI(d.min)
  ELSE IF RLt(RI(w - 1), weight) THEN RI(d.max)
  ELSE IF n = 1 /\ fw = 1 THEN RI(Mean(d, 1))       \* (a single value; not reachable: w = 1)
  ELSE IF fw > 1 /\ RLt(weight, RHalf(fw))
  THEN RAdd(RI(d.min), RMul(RDiv(RSub(weight, RI(1)), RSub(RHalf(fw), RI(1))), RI(Mean(d, 1) - d.min)))
  ELSE IF lw > 1 /\ RLe(RSub(RI(w), weight), RHalf(lw))
  THEN IF lw = 2 THEN RI(Mean(d, n))  \* no sample strictly between the last mean and max
       ELSE RSub(RI(d.max), RMul(RDiv(RSub(RSub(RI(w), weight), RI(1)), RSub(RHalf(lw), RI(1))), RI(d.max - Mean(d, n))))
  ELSE QLoop(d, weight, 1, RHalf(fw))

(* ---- properties (C10) ------------------------------------------------------- *)
InUnit(r) == RLe(RI(0), r) /\ RLe(r, RI(1))
InRange(d, x) == RLe(RI(d.min), x) /\ RLe(x, RI(d.max))

\* vs: increasing sequence of rational query points (results are tabulated once: "\o <<>>"
\* forces TLC to evaluate the function into a tuple)
RankMonotone(d, vs) ==
  LET rk == [i \in 1..Len(vs) |-> Rank(d, vs[i])] \o <<>> IN
  /\ \A i \in 1..Len(vs) : InUnit(rk[i])
  /\ \A i \in 1..(Len(vs) - 1) : RLe(rk[i], rk[i + 1])

\* qs: increasing sequence of rationals in [0, 1]
QuantileMonotone(d, qs) ==
  LET qt == [i \in 1..Len(qs) |-> Quantile(d, qs[i])] \o <<>> IN
  /\ \A i \in 1..Len(qs) : IsDef(qt[i]) => InRange(d, qt[i])
  /\ \A i, j \in 1..Len(qs) : (i < j /\ IsDef(qt[i]) /\ IsDef(qt[j])) => RLe(qt[i], qt[j])

EndPoints(d) ==
  /\ REq(Quantile(d, RI(0)), RI(d.min))
  /\ REq(Quantile(d, RI(1)), RI(d.max))
  /\ REq(Rank(d, <<2 * d.min - 1, 2>>), RI(0))
  /\ REq(Rank(d, <<2 * d.max + 1, 2>>), RI(1))

\* rank(quantile(q)) is within the digest's resolution of q: the largest mass the digest places
\* at one point (a centroid, or a run of centroids with equal means) over the total weight
AtomAt(d, m) == LET RECURSIVE S(_)
                    S(i) == IF i > N(d) THEN 0 ELSE (IF Mean(d, i) = m THEN Wt(d, i) ELSE 0) + S(i + 1)
                IN S(1)
MaxAtom(d) == LET A == {AtomAt(d, Mean(d, i)) : i \in 1..N(d)} IN CHOOSE x \in A : \A y \in A : y <= x
Consistent(d, qs) ==
  \A i \in 1..Len(qs) :
    LET x == Quantile(d, qs[i]) IN
    (IsDef(x) /\ N(d) > 1) =>
      LET r == Rank(d, x)  diff == RSub(r, qs[i])  tol == <<MaxAtom(d), W(d)>> IN
      RLe(diff, tol) /\ RLe(RSub(RI(0), tol), diff)
===============================================================================
