CONSTANTS ListCap = 8  InitSetLg = 5  SetLgOff = 3  AuxToken = 15  MaxVal = 63
          LgK = 7  Prefix <- P7  Alphabet <- A7  Depth = 7
SPECIFICATION GSpec
INVARIANT GInv
VIEW View
CHECK_DEADLOCK FALSE
