CONSTANTS NumCols = 5  WinBits = 2  SpNum = 3  SpDen = 4  OffBase = 19  ULgK = 2  MaxSteps = 4
SPECIFICATION Spec
INVARIANT Inv
CHECK_DEADLOCK FALSE
