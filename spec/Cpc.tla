--------------------------------- MODULE Cpc ---------------------------------
(* CPC sketch (cpc/sketch.rs, cpc/mod.rs) and CPC union (cpc/union.rs) as      *)
(* functions on state records.                                                 *)
(*                                                                             *)
(* Abstract object: a K x NumCols bit matrix (row -> set of columns).          *)
(* Implementation-shaped layer: number of coupons C, window offset, a WinBits  *)
(* wide window per row (absent while sparse), the set of "surprising" pairs    *)
(* (ones outside/right of the window, and - inverted logic - zeros left of     *)
(* it), first_interesting_column, merge flag.  The pair table's slot layout    *)
(* is not observable through the sketch (it is OR-ed, XOR-ed or sorted) and is *)
(* specified separately in PairTable.tla; here the table is a set of pairs.    *)
EXTENDS Integers, Sequences, FiniteSets, TLC, SequencesExt

CONSTANTS NumCols,   \* 64
          WinBits,   \* 8
          SpNum, SpDen,  \* sparse while SpDen * C < SpNum * K        (3, 32)
          OffBase        \* offset = max(0, (8C - OffBase*K) div 8K)  (19); the window moves
                         \* when 8C >= (OffBase + 8 + 8*offset) * K    (27 + 8*offset)

P2(n) == 2 ^ n
KOf(st) == P2(st.lgk)
Rows(st) == 0..(KOf(st) - 1)
MinOf(S) == CHOOSE x \in S : \A y \in S : x <= y

NewCpc(lgk) ==
  [lgk |-> lgk, c |-> 0, off |-> 0, fic |-> 0, win |-> <<>>, tab |-> {}, merged |-> FALSE]

\* (DOMAIN, not a comparison of the k-sized function with the empty tuple: that costs time proportional to k)
Windowed(st) == DOMAIN st.win # {}

\* determine_correct_offset
CorrectOffset(k, c) == IF 8 * c - OffBase * k < 0 THEN 0 ELSE (8 * c - OffBase * k) \div (8 * k)

\* build_bit_matrix: columns left of the window default to one; window bits are placed at the
\* offset; every surprising pair flips its bit
MatrixRow(st, i) ==
  LET base == (0..(st.off - 1))
              \cup (IF Windowed(st) THEN {st.off + b : b \in st.win[i]} ELSE {})
      flips == {p[2] : p \in {q \in st.tab : q[1] = i}}
  IN (base \ flips) \cup (flips \ base)

Matrix(st) == [i \in Rows(st) |-> MatrixRow(st, i)]

(* a window/table/fic encoding of a bit matrix at a given offset (move_window, to_sketch) *)
EncWin(m, off, k) == [i \in 0..(k - 1) |-> {b \in 0..(WinBits - 1) : off + b \in m[i]}]
EncTab(m, off, k) ==
  UNION {{<<i, col>> : col \in {x \in m[i] : x >= off + WinBits}}
         \cup {<<i, col>> : col \in {x \in 0..(off - 1) : x \notin m[i]}} : i \in 0..(k - 1)}
EncFic(tab, off) ==
  IF tab = {} THEN off
  ELSE LET f == MinOf({p[2] : p \in tab}) IN IF f > off THEN off ELSE f

MoveWindow(st) ==
  LET m == Matrix(st)  no == st.off + 1  k == KOf(st)
      t == EncTab(m, no, k)
  IN [st EXCEPT !.off = no, !.win = EncWin(m, no, k), !.tab = t, !.fic = EncFic(t, no)]

\* promote_sparse_to_windowed: pairs with col < WinBits go to the window
Promote(st) ==
  [st EXCEPT !.win = [i \in Rows(st) |-> {p[2] : p \in {q \in st.tab : q[1] = i /\ q[2] < WinBits}}],
             !.tab = {p \in st.tab : p[2] >= WinBits}]

UpdateSparse(st, r, col) ==
  IF <<r, col>> \in st.tab THEN st
  ELSE LET st1 == [st EXCEPT !.tab = @ \cup {<<r, col>>}, !.c = @ + 1] IN
       IF SpDen * st1.c >= SpNum * KOf(st) THEN Promote(st1) ELSE st1

UpdateWindowed(st, r, col) ==
  LET p == <<r, col>>
      st1 == IF col < st.off
             THEN IF p \in st.tab THEN [st EXCEPT !.tab = @ \ {p}, !.c = @ + 1] ELSE st   \* inverted logic
             ELSE IF col < st.off + WinBits
             THEN IF (col - st.off) \in st.win[r] THEN st
                  ELSE [st EXCEPT !.win[r] = @ \cup {col - st.off}, !.c = @ + 1]
             ELSE IF p \in st.tab THEN st ELSE [st EXCEPT !.tab = @ \cup {p}, !.c = @ + 1]
  IN IF st1.c # st.c /\ 8 * st1.c >= (OffBase + 8 + 8 * st.off) * KOf(st)
     THEN MoveWindow(st1) ELSE st1

\* row_col_update
RowCol(st, r, col) ==
  IF col < st.fic THEN st
  ELSE IF Windowed(st) THEN UpdateWindowed(st, r, col) ELSE UpdateSparse(st, r, col)

(* ---- flavors -------------------------------------------------------------- *)
Flavor(k, c) ==
  IF c = 0 THEN "empty"
  ELSE IF SpDen * c < SpNum * k THEN "sparse"
  ELSE IF 2 * c < k THEN "hybrid"
  ELSE IF 8 * c < (OffBase + 8) * k THEN "pinned"
  ELSE "sliding"

(* ---- the HIP estimator's kxp register, exactly -------------------------------- *)
\* kxp = k - sum over the collected coupons (row, col) of 2^-(col + 1): the probability mass (times k) of
\* the cells still empty; the HIP accumulator grows by k / kxp at every new coupon. As an integer:
\* kxp * 2^64 = k * 2^64 - sum_col count(col) * 2^(63 - col), on five 16-bit limbs (80 bits, Wide.tla).
W80 == INSTANCE Wide WITH B <- 65536, N <- 5
ColCounts(m) ==
  FoldLeft(LAMBDA h, i : [c \in 0..63 |-> h[c] + (IF c \in m[i] THEN 1 ELSE 0)], [c \in 0..63 |-> 0],
           [j \in 1..Cardinality(DOMAIN m) |-> j - 1])
KxpW(m, lgk) ==
  LET h == ColCounts(m)
      taken == W80!WSum([i \in 1..64 |-> W80!WShl(W80!WOfSmall(h[i - 1]), 63 - (i - 1))]) IN
  W80!WSub(W80!WShl(W80!WOfSmall(P2(lgk)), 64), taken)
\* the implementation's f64 register agrees up to the rounding of its incremental upkeep: k * 2^-40
KxpClose(x, y, lgk) ==
  LET tol == W80!WShl(W80!WOfSmall(1), lgk + 24) IN
  W80!WLeq(x, W80!WAdd(y, tol)) /\ W80!WLeq(y, W80!WAdd(x, tol))

(* ---- image format selectors ------------------------------------------------- *)
\* Which code table encodes the window bytes is not stored in the image: writer and reader derive a
\* pseudo-phase from (lg_k, number of coupons); the thresholds are part of the cross-language format.
PseudoPhase(lgk, c) ==
  LET k == P2(lgk) IN
  IF 1000 * c < 2375 * k
  THEN IF 4 * c < 3 * k THEN 16
       ELSE IF 10 * c < 11 * k THEN 17
       ELSE IF 100 * c < 132 * k THEN 18
       ELSE IF 3 * c < 5 * k THEN 19
       ELSE IF 1000 * c < 1965 * k THEN 20
       ELSE IF 1000 * c < 2275 * k THEN 21
       ELSE 6
  ELSE (c \div P2(lgk - 4)) % 16
\* Golomb base bits of the pair stream: floor(log2(floor(k / pairs))), 0 when pairs >= k
RECURSIVE FloorLg2(_)
FloorLg2(x) == IF x <= 1 THEN 0 ELSE 1 + FloorLg2(x \div 2)
GolombBaseBits(lgk, pairs) == IF pairs = 0 THEN 0 ELSE FloorLg2(P2(lgk) \div pairs)
\* pairs in the encoded stream: a Hybrid image folds the window back into the pair list
EncodedPairs(st) == IF Flavor(KOf(st), st.c) = "hybrid" THEN st.c ELSE Cardinality(st.tab)

(* ---- invariants (C05) ------------------------------------------------------ *)
\* (a fold over the rows 0..k-1; a recursion over the domain as a set is quadratic in k)
CountBits(m) == FoldLeft(LAMBDA acc, i : acc + Cardinality(m[i]), 0, [j \in 1..Cardinality(DOMAIN m) |-> j - 1])

\* bits: the model matrix (row -> set of columns) of the distinct coupons offered
MatrixOK(st, bits) == Matrix(st) = bits
CountOK(st) == st.c = CountBits(Matrix(st))          \* validate()
OffsetOK(st) ==
  /\ st.off = CorrectOffset(KOf(st), st.c)
  /\ Windowed(st) = (Flavor(KOf(st), st.c) \notin {"empty", "sparse"})
  /\ st.off <= NumCols - WinBits
\* dropping coupons left of first_interesting_column is sound: those columns are full
FicSound(st) == \A i \in Rows(st) : (0..(st.fic - 1)) \subseteq MatrixRow(st, i)
ShapeOK(st) ==
  /\ \A p \in st.tab : p[1] \in Rows(st) /\ p[2] \in 0..(NumCols - 1)
                       /\ (Windowed(st) => (p[2] < st.off \/ p[2] >= st.off + WinBits))
  /\ Windowed(st) => \A i \in Rows(st) : st.win[i] \subseteq 0..(WinBits - 1)
  /\ st.fic <= st.off

(* ---- union (cpc/union.rs) -------------------------------------------------- *)
\* state: [lgk, acc (a sparse accumulator sketch) | mat (a bit matrix), isMat]
NewUnion(lgk) == [lgk |-> lgk, isMat |-> FALSE, acc |-> NewCpc(lgk), mat |-> <<>>]

Fold(m, srcLg, dstLg) ==
  [i \in 0..(P2(dstLg) - 1) |-> UNION {m[j] : j \in {x \in 0..(P2(srcLg) - 1) : x % P2(dstLg) = i}}]

OrInto(dst, dstLg, src, srcLg) == LET f == Fold(src, srcLg, dstLg) IN [i \in DOMAIN dst |-> dst[i] \cup f[i]]

\* walk_table_updating_sketch: every pair of the table goes through row_col_update with the
\* row folded (the golden-ratio walk order does not affect the resulting set)
RECURSIVE WalkInto(_, _)
WalkInto(sk, pairs) ==
  IF pairs = {} THEN sk
  ELSE LET p == CHOOSE x \in pairs : TRUE IN WalkInto(RowCol(sk, p[1] % KOf(sk), p[2]), pairs \ {p})

ReduceK(u, newLg) ==
  IF ~u.isMat
  THEN IF u.acc.c = 0 THEN [u EXCEPT !.lgk = newLg, !.acc = NewCpc(newLg)]
       ELSE LET ns == WalkInto(NewCpc(newLg), u.acc.tab) IN
            IF Flavor(P2(newLg), ns.c) = "sparse"
            THEN [u EXCEPT !.lgk = newLg, !.acc = ns]
            ELSE [u EXCEPT !.lgk = newLg, !.isMat = TRUE, !.mat = Matrix(ns), !.acc = NewCpc(newLg)]
  ELSE [u EXCEPT !.lgk = newLg, !.mat = Fold(u.mat, u.lgk, newLg)]

UnionUpdate(u0, src) ==
  LET fl == Flavor(KOf(src), src.c) IN
  IF fl = "empty" THEN u0
  ELSE
    LET u1 == IF src.lgk < u0.lgk THEN ReduceK(u0, src.lgk) ELSE u0
        u2 == IF fl # "sparse" /\ ~u1.isMat
              THEN [u1 EXCEPT !.isMat = TRUE, !.mat = Matrix(u1.acc), !.acc = NewCpc(u1.lgk)] ELSE u1
    IN IF ~u2.isMat
       THEN \* case A: sparse into the accumulator
            IF u2.acc.c = 0 /\ u2.lgk = src.lgk THEN [u2 EXCEPT !.acc = src]
            ELSE LET a == WalkInto(u2.acc, src.tab) IN
                 IF Flavor(KOf(a), a.c) \notin {"empty", "sparse"}
                 THEN [u2 EXCEPT !.isMat = TRUE, !.mat = Matrix(a), !.acc = NewCpc(u2.lgk)]
                 ELSE [u2 EXCEPT !.acc = a]
       ELSE \* cases B, C, D: OR the source's matrix (table; window + table; whole matrix) in
            [u2 EXCEPT !.mat = OrInto(@, u2.lgk, Matrix(src), src.lgk)]

UnionMatrix(u) == IF u.isMat THEN u.mat ELSE Matrix(u.acc)

\* to_sketch: re-encode the matrix at the correct offset, marked as merged
ToSketch(u) ==
  IF ~u.isMat
  THEN IF u.acc.c = 0 THEN [NewCpc(u.lgk) EXCEPT !.merged = TRUE] ELSE [u.acc EXCEPT !.merged = TRUE]
  ELSE LET k == P2(u.lgk)  c == CountBits(u.mat)  off == CorrectOffset(k, c)
           t == EncTab(u.mat, off, k) IN
       [lgk |-> u.lgk, c |-> c, off |-> off, fic |-> EncFic(t, off), win |-> EncWin(u.mat, off, k),
        tab |-> t, merged |-> TRUE]
===============================================================================
