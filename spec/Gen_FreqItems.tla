---------------------------- MODULE Gen_FreqItems ----------------------------
(* Behaviour generator at the real minimum map size (8 slots): two sketches x  *)
(* and y over eight items with clustered home slots; from a prefix close to    *)
(* the purge threshold TLC explores every sequence of weighted updates on      *)
(* either sketch, merge of y into x, reset of y.  One behaviour per distinct   *)
(* pair of map states (history hidden by the VIEW).                            *)
EXTENDS FreqItems, Json

CONSTANTS LgMax, Depth, Weights

Lows == <<0, 0, 1, 7, 7, 15, 6, 2>>        \* hash low bits of items 1..8
It(i) == <<i, Lows[i]>>

VARIABLES x, y, hist
vars == <<x, y, hist>>

Pre == << <<"u", 1, 2>>, <<"u", 2, 1>>, <<"u", 3, 1>>, <<"u", 4, 2>>, <<"u", 5, 1>>,
          <<"v", 6, 1>>, <<"v", 7, 1>>, <<"v", 1, 3>> >>

Step(s, e) ==
  CASE e[1] = "u" -> [s EXCEPT !.x = Update(@, It(e[2]), e[3])]
    [] e[1] = "v" -> [s EXCEPT !.y = Update(@, It(e[2]), e[3])]
    [] e[1] = "m" -> [s EXCEPT !.x = Merge(@, s.y)]
    [] e[1] = "r" -> [s EXCEPT !.y = Reset(@)]

S0 == FoldLeft(Step, [x |-> NewFI(LgMax), y |-> NewFI(LgMax)], Pre)

GInit == x = S0.x /\ y = S0.y /\ hist = Pre

Do(e) == LET s == Step([x |-> x, y |-> y], e) IN x' = s.x /\ y' = s.y /\ hist' = Append(hist, e)

GNext ==
  /\ Len(hist) < Len(Pre) + Depth
  /\ \/ \E i \in 1..8, w \in Weights : Do(<<"u", i, w>>) \/ Do(<<"v", i, w>>)
     \/ Do(<<"m">>) \/ Do(<<"r">>)

GSpec == GInit /\ [][GNext]_vars
View == <<x, y>>

Emit == PrintT(<<"REPLAY", ToJson([lgmax |-> LgMax, lows |-> Lows, ops |-> hist])>>)
GInv == MapOK(x) /\ MapOK(y) /\ Emit
===============================================================================
