\* k = 4 (table 4 -> 8), rf = 1: resize at > 2, then rebuild at > 7; hashes 1..12 collide mod 4/8
CONSTANTS MinLg = 2  StrideBits = 2  LgNom = 2  Rf = 1  MaxH = 11  Th0 = 12  MaxOps = 11
SPECIFICATION Spec
INVARIANT Inv
PROPERTY ThetaMonotone
CHECK_DEADLOCK FALSE
