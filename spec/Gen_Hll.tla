------------------------------- MODULE Gen_Hll -------------------------------
(* Behaviour generator at the implementation's real constants.  A scripted    *)
(* prefix drives the sketch to a deep state; from there TLC explores every    *)
(* sequence over a small adversarial alphabet.  The history is hidden by the  *)
(* VIEW, so exactly one (shortest) behaviour is emitted per distinct          *)
(* implementation-shaped state (layout of list/table/cells/exceptions).       *)
(* Each behaviour is replayed into real Hll4/Hll6/Hll8 sketches and the       *)
(* recorded trace validated by Trace_Hll.                                     *)
EXTENDS Hll, Json

CONSTANTS LgK, Prefix, Alphabet, Depth

VARIABLES s4, s8, hist
vars == <<s4, s8, hist>>

Apply(st, cs) == FoldLeft(LAMBDA acc, c : Update(acc, c), st, cs)

GInit == /\ s4 = Apply(NewSketch(LgK, 4), Prefix)
         /\ s8 = Apply(NewSketch(LgK, 8), Prefix)
         /\ hist = Prefix

GNext == \E c \in Alphabet :
           /\ Len(hist) < Len(Prefix) + Depth
           /\ s4' = Update(s4, c) /\ s8' = Update(s8, c)
           /\ hist' = Append(hist, c)

GSpec == GInit /\ [][GNext]_vars
View == <<s4, s8>>

Emit == PrintT(<<"REPLAY", ToJson([lgk |-> LgK, ops |-> hist])>>)
GInv == Hll4Shape(s4) /\ SetShape(s4) /\ Arr68Shape(s8) /\ Emit

(* ---- instances ---------------------------------------------------------- *)
Seq1(n, v) == [i \in 1..n |-> <<i - 1, v>>]

\* lgK = 4: 13 of 16 registers at 1, exceptions and shifts are a few coupons away
P4 == Seq1(13, 1)
A4 == { <<13,1>>, <<14,1>>, <<15,1>>, <<15,16>>, <<15,17>>, <<14,15>>, <<13,63>>,
        <<0,2>>, <<1,2>>, <<0,17>>, <<31,3>>, <<14,16>> }

\* lgK = 4, every register at 2 except two at 1 with a live exception: one coupon shifts
P4b == Seq1(16, 1) \o [i \in 1..14 |-> <<i - 1, 2>>] \o << <<15, 17>>, <<3, 16>> >>
A4b == { <<14,2>>, <<15,2>>, <<14,3>>, <<15,18>>, <<3,17>>, <<3,3>>, <<0,3>>, <<0,18>>, <<15,1>> }

\* lgK = 8: list(8) -> table lg 5 -> array at the 25th coupon; 21 coupons in, slots that
\* collide in the probe start (mod 32) and in the stride
P8 == [i \in 1..21 |-> <<7 + 32 * (i - 1), 1 + (i % 3)>>]
A8 == { <<7 + 32*40, 1>>, <<7 + 32*41, 2>>, <<8, 1>>, <<39, 5>>, <<7, 2>>, <<7 + 32*3, 1>>, <<263, 9>> }

\* lgK = 10: table growth 32 -> 64 at the 25th coupon
P10 == [i \in 1..22 |-> <<5 + 64 * (i - 1), 1 + (i % 2)>>]
A10 == { <<5 + 64*30, 1>>, <<5 + 64*31, 1>>, <<37, 1>>, <<69, 3>>, <<5, 1>>, <<6, 1>> }

\* lgK = 7: list -> array at the 8th coupon
P7 == << <<1,1>>, <<129,2>>, <<2,1>>, <<130,40>>, <<3,63>> >>
A7 == { <<1,1>>, <<1,2>>, <<257,3>>, <<4,1>>, <<5,20>>, <<127,1>>, <<255,16>> }
===============================================================================
