------------------------------ MODULE Trace_Bloom ------------------------------
(* Trace validation for BloomFilter: bit positions come from the harness's     *)
(* reference XXH64 double hashing; the bit array is read from serialize().     *)
EXTENDS Bloom, Json, IOUtils

CONSTANT Check
Rec == ndJsonDeserialize(IOEnv.TRACE)

VARIABLES l, obj, gh     \* gh[i] = [ins |-> set of position tuples known inserted, pure |-> only inserts/unions so far]
tvars == <<l, obj, gh>>
Ev == Rec[l]
IsEv(op) == l <= Len(Rec) /\ Ev.op = op /\ l' = l + 1
On(p) == p \in Check
Put(f, i, v) == (i :> v) @@ f
Tup(s) == [i \in 1..Len(s) |-> s[i]]

(* ---- binary layout (family 21, serial version 1): 3 preamble longs when empty, else 4 + the words ---- *)
LE(x, n) == [i \in 1..n |-> (x \div (256 ^ (i - 1))) % 256]
ByteOf(bits, j) == LET b(i) == IF (8 * j + i) \in bits THEN 2 ^ i ELSE 0 IN b(0) + b(1) + b(2) + b(3) + b(4) + b(5) + b(6) + b(7)
EncBF(st, seed8) ==
  LET empty == st.nset = 0 IN
  <<IF empty THEN 3 ELSE 4, 1, 21, IF empty THEN 4 ELSE 0>> \o LE(st.k, 2) \o <<0, 0>> \o seed8
  \o LE(st.cap \div 64, 4) \o <<0, 0, 0, 0>>
  \o (IF empty THEN <<>> ELSE LE(st.nset, 4) \o <<0, 0, 0, 0>> \o [j \in 1..(st.cap \div 8) |-> ByteOf(st.bits, j - 1)])

TInit == l = 1 /\ obj = <<>> /\ gh = <<>>
TrRun == IsEv("Run") /\ obj' = <<>> /\ gh' = <<>>

TrNew ==
  /\ IsEv("BNew")
  /\ obj' = Put(obj, Ev.id, NewBF(Ev.cap, Ev.k))
  /\ gh' = Put(gh, Ev.id, [ins |-> {}, pure |-> TRUE])
  \* the bit array is the requested size rounded up to whole 64-bit words
  /\ ((On("C09") \/ On("C18")) /\ "nbits" \in DOMAIN Ev) => Ev.cap = 64 * ((Ev.nbits + 63) \div 64)

After(i) == On("C09") => (Ev.used = obj'[i].nset /\ CountOK(obj'[i]) /\ NoFalseNeg(obj'[i], gh'[i].ins))

TrIns ==
  /\ IsEv("BIns")
  /\ Len(Ev.p) = obj[Ev.id].k
  /\ obj' = [obj EXCEPT ![Ev.id] = Insert(@, Tup(Ev.p))]
  /\ gh' = [gh EXCEPT ![Ev.id].ins = @ \cup {Tup(Ev.p)}]
  /\ After(Ev.id)

TrCai ==
  /\ IsEv("BCai")
  /\ On("C09") => Ev.was = WasPresent(obj[Ev.id], Tup(Ev.p))
  /\ obj' = [obj EXCEPT ![Ev.id] = Insert(@, Tup(Ev.p))]
  /\ gh' = [gh EXCEPT ![Ev.id].ins = @ \cup {Tup(Ev.p)}]
  /\ After(Ev.id)

\* contains(): the answer is determined by the bit array, false positives included
TrQ ==
  /\ IsEv("BQ")
  /\ On("C09") => Ev.res = Contains(obj[Ev.id], Tup(Ev.p))
  /\ UNCHANGED <<obj, gh>>

TrUnion ==
  /\ IsEv("BUnion")
  /\ Compatible(obj[Ev.id], obj[Ev.src])
  /\ obj' = [obj EXCEPT ![Ev.id] = Union(@, obj[Ev.src])]
  /\ gh' = [gh EXCEPT ![Ev.id] = [ins |-> @.ins \cup gh[Ev.src].ins, pure |-> @.pure /\ gh[Ev.src].pure]]
  /\ After(Ev.id)

TrInter ==
  /\ IsEv("BInter")
  /\ Compatible(obj[Ev.id], obj[Ev.src])
  /\ obj' = [obj EXCEPT ![Ev.id] = Intersect(@, obj[Ev.src])]
  /\ gh' = [gh EXCEPT ![Ev.id] = [ins |-> @.ins \cap gh[Ev.src].ins, pure |-> FALSE]]
  /\ After(Ev.id)

TrInvert ==
  /\ IsEv("BInvert")
  /\ obj' = [obj EXCEPT ![Ev.id] = Invert(@)]
  /\ gh' = [gh EXCEPT ![Ev.id] = [ins |-> {}, pure |-> FALSE]]
  /\ After(Ev.id)

TrReset ==
  /\ IsEv("BReset")
  /\ obj' = [obj EXCEPT ![Ev.id] = Reset(@)]
  /\ gh' = [gh EXCEPT ![Ev.id] = [ins |-> {}, pure |-> TRUE]]
  /\ After(Ev.id)

\* checkpoint: the bit array decoded from the image equals the specification's bit set, which
\* (while only inserts and unions happened) is exactly the reference positions of the inserted items
TrChk ==
  /\ IsEv("BChk")
  /\ LET st == obj[Ev.id] IN
     /\ On("C09") => /\ {Ev.bits[i] : i \in 1..Len(Ev.bits)} = st.bits
                     /\ Ev.used = st.nset
                     /\ (gh[Ev.id].pure => st.bits = A_Bits(gh[Ev.id].ins))
     /\ (On("C12") /\ "img" \in DOMAIN Ev) =>
           [i \in 1..Len(Ev.img) |-> Ev.img[i]] = EncBF(st, [i \in 1..8 |-> Ev.seed8[i]])
     /\ On("C18") => Ev.len = (IF st.nset = 0 THEN 24 ELSE 32 + st.cap \div 8)
  /\ UNCHANGED <<obj, gh>>

\* C13: an image built by the harness from the specification's bit set, in the exact form and in the form
\* whose bit count is the "dirty" marker 2^64 - 1 (the reader recounts): the filter it decodes to holds
\* exactly these bits, answers as the original and writes the exact form again
EncBFDirty(st, seed8) ==
  LET e == EncBF(st, seed8) IN
  IF st.nset = 0 THEN e ELSE [i \in 1..Len(e) |-> IF i >= 25 /\ i <= 32 THEN 255 ELSE e[i]]
TrLoad ==
  /\ IsEv("BLoad")
  /\ LET st == obj[Ev.id]  seed8 == [i \in 1..8 |-> Ev.seed8[i]]  img == [i \in 1..Len(Ev.img) |-> Ev.img[i]] IN
     /\ img = (IF Ev.dirty THEN EncBFDirty(st, seed8) ELSE EncBF(st, seed8))
     /\ On("C13") => (/\ Ev.ok
                      /\ {Ev.bits[i] : i \in 1..Len(Ev.bits)} = st.bits
                      /\ Ev.used = st.nset
                      /\ [i \in 1..Len(Ev.again) |-> Ev.again[i]] = EncBF(st, seed8))
  /\ UNCHANGED <<obj, gh>>

TrRT ==
  /\ IsEv("BRT")
  /\ obj' = Put(obj, Ev.to, obj[Ev.id])
  /\ gh' = Put(gh, Ev.to, gh[Ev.id])
  /\ On("C11") => (Ev.same /\ Ev.eq)

\* union / intersect are defined between filters of one configuration only (Bloom.tla Compatible, and
\* the seed, which decides the probes): anything else is refused, and is_compatible says so beforehand
TrTry ==
  /\ IsEv("BTry")
  /\ On("C09") => LET same == Ev.a.cap = Ev.b.cap /\ Ev.a.k = Ev.b.k /\ Ev.a.seed8 = Ev.b.seed8 IN
                    Ev.accepted = same /\ Ev.compat = same
  /\ UNCHANGED <<obj, gh>>

TrPanic == IsEv("Panic") /\ FALSE /\ UNCHANGED <<obj, gh>>

TNext == TrRun \/ TrTry \/ TrNew \/ TrIns \/ TrCai \/ TrQ \/ TrUnion \/ TrInter \/ TrInvert \/ TrReset
         \/ TrChk \/ TrRT \/ TrLoad \/ TrPanic
TSpec == TInit /\ [][TNext]_tvars

Accepted ==
  LET d == TLCGet("stats").diameter IN
  IF d - 1 = Len(Rec) THEN TRUE
  ELSE Print(<<"UNMATCHED", d, Rec[d]>>, FALSE)
===============================================================================
