CONSTANTS MaxOps = 9
SPECIFICATION Spec
INVARIANT Inv
CHECK_DEADLOCK FALSE
