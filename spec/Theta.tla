-------------------------------- MODULE Theta --------------------------------
(* Theta (KMV) update sketch of datasketches-rust: theta/hash_table.rs and     *)
(* theta/sketch.rs, as functions on a state record.                            *)
(*                                                                             *)
(* A hash is <<r, lo>>: r is its rank in the order of all 63-bit values of the *)
(* run (order-isomorphic projection: only <, = on hashes and theta matter) and *)
(* lo its low 30 bits, which determine the table index (key & mask) and the    *)
(* probe stride (2 * ((key >> lgSize) & 127) + 1) for every table size used.   *)
(* theta is a rank; mx is the rank of MAX_THETA (the value of theta = 1.0).    *)
EXTENDS Integers, Sequences, FiniteSets, TLC, SequencesExt

CONSTANTS MinLg,       \* smallest lg table size / lg_k (5)
          StrideBits   \* 7

NoH == <<0, 0>>
P2(n) == 2 ^ n

\* starting_sub_multiple(lgNom + 1, MinLg, rf)
LgStart(lgNom, rf) ==
  IF lgNom + 1 <= MinLg THEN MinLg
  ELSE IF rf = 0 THEN lgNom + 1
  ELSE ((lgNom + 1 - MinLg) % rf) + MinLg

EmptyT(lg) == [p \in 0..(P2(lg) - 1) |-> NoH]

NewTheta(lgNom, rf, th0, mx) ==
  [lgNom |-> lgNom, rf |-> rf, lgCur |-> LgStart(lgNom, rf), tab |-> EmptyT(LgStart(lgNom, rf)),
   n |-> 0, theta |-> th0, th0 |-> th0, mx |-> mx, empty |-> TRUE]

Stride(h, lg) == 2 * ((h[2] \div P2(lg)) % P2(StrideBits)) + 1

\* find_in_entries: first slot on the probe path that is empty or holds the key
RECURSIVE ProbeT(_, _, _, _, _, _)
ProbeT(tab, size, h, p, stride, start) ==
  IF tab[p] = NoH THEN <<"empty", p>>
  ELSE IF tab[p] = h THEN <<"found", p>>
  ELSE LET q == (p + stride) % size IN
       IF q = start THEN <<"none", 0>> ELSE ProbeT(tab, size, h, q, stride, start)

Find(tab, lg, h) ==
  LET size == P2(lg)  s == h[2] % size IN ProbeT(tab, size, h, s, Stride(h, lg), s)

\* the entries in storage order (what iter() yields)
TSeq(st) == SelectSeq([i \in 1..P2(st.lgCur) |-> st.tab[i - 1]], LAMBDA x : x # NoH)

Entries(st) == {st.tab[p] : p \in DOMAIN st.tab} \ {NoH}

Place1(tab, lg, h) ==
  LET r == Find(tab, lg, h) IN IF r[1] = "empty" THEN [tab EXCEPT ![r[2]] = h] ELSE tab
PlaceAll(tab, lg, hs) == FoldLeft(LAMBDA acc, h : Place1(acc, lg, h), tab, hs)

K(st) == P2(st.lgNom)
\* get_capacity: 0.5 * size below the maximum table size, 15/16 * size at it
Cap(st) == IF st.lgCur <= st.lgNom THEN P2(st.lgCur) \div 2 ELSE (15 * P2(st.lgCur)) \div 16

Resize(st) ==
  LET lg == IF st.lgCur + st.rf < st.lgNom + 1 THEN st.lgCur + st.rf ELSE st.lgNom + 1 IN
  [st EXCEPT !.lgCur = lg, !.tab = PlaceAll(EmptyT(lg), lg, TSeq(st))]

HLess(a, b) == a[1] < b[1]
Sorted(S) == SetToSortSeq(S, HLess)

(* rebuild: keep the k smallest, theta := the (k+1)-th smallest.  The code       *)
(* re-inserts them in the order select_nth_unstable leaves them, which is         *)
(* unspecified: the layout lay is a parameter, constrained by ValidLayout.        *)
KSmallest(st) == LET s == Sorted(Entries(st)) IN {s[i] : i \in 1..K(st)}
NewThetaOf(st) == Sorted(Entries(st))[K(st) + 1][1]

ValidLayout(st, lay) ==
  /\ DOMAIN lay = 0..(P2(st.lgCur) - 1)
  /\ {lay[p] : p \in DOMAIN lay} \ {NoH} = KSmallest(st)
  /\ \A p \in DOMAIN lay : lay[p] # NoH => Find(lay, st.lgCur, lay[p]) = <<"found", p>>

CanonLayout(st) == PlaceAll(EmptyT(st.lgCur), st.lgCur, Sorted(KSmallest(st)))

Rebuild(st, lay) == [st EXCEPT !.theta = NewThetaOf(st), !.tab = lay, !.n = K(st)]

NeedsRebuildOnInsert(st, h) ==
  /\ h[1] < st.theta
  /\ Find(st.tab, st.lgCur, h)[1] = "empty"
  /\ st.n + 1 > Cap(st)
  /\ st.lgCur > st.lgNom

\* the state just before a possible resize/rebuild
Placed(st, h) ==
  LET r == Find(st.tab, st.lgCur, h) IN
  IF r[1] = "empty" THEN [st EXCEPT !.tab[r[2]] = h, !.n = @ + 1] ELSE st

\* ThetaSketch::update after hashing; lay is consulted only when a rebuild happens
Offer(st, h, lay) ==
  LET st0 == [st EXCEPT !.empty = FALSE] IN
  IF h[1] >= st.theta THEN st0                                    \* screened out
  ELSE LET st1 == Placed(st0, h) IN
       IF st1.n > Cap(st1) /\ st1.n # st0.n
       THEN IF st1.lgCur <= st1.lgNom THEN Resize(st1) ELSE Rebuild(st1, lay)
       ELSE st1

OfferLayoutOK(st, h, lay) ==
  NeedsRebuildOnInsert(st, h) => ValidLayout(Placed(st, h), lay)

Trim(st, lay) == IF st.n > K(st) THEN Rebuild(st, lay) ELSE st
TrimLayoutOK(st, lay) == st.n > K(st) => ValidLayout(st, lay)

Reset(st) == NewTheta(st.lgNom, st.rf, st.th0, st.mx)

\* compact(ordered)
Compact(st, ordered) ==
  LET theta == IF st.empty THEN st.mx ELSE st.theta
      single == st.n = 1 /\ theta = st.mx
      ord == ordered \/ st.empty \/ single IN
  [entries |-> IF ord THEN Sorted(Entries(st)) ELSE TSeq(st),
   theta |-> theta, empty |-> st.empty, ordered |-> ord]

(* ---- invariants (C04, C18) ---------------------------------------------- *)
\* every stored hash is found by its own probe; the count is exact
TableOK(st) ==
  /\ st.n = Cardinality(Entries(st))
  /\ Cardinality({p \in DOMAIN st.tab : st.tab[p] # NoH}) = st.n
  /\ \A p \in DOMAIN st.tab : st.tab[p] # NoH => Find(st.tab, st.lgCur, st.tab[p]) = <<"found", p>>
  /\ DOMAIN st.tab = 0..(P2(st.lgCur) - 1)
  /\ st.lgCur <= st.lgNom + 1

\* the retained entries are exactly the offered hashes below theta
KMV(st, offered) == Entries(st) = {h \in offered : h[1] < st.theta}

\* theta is below its initial value only after more than k distinct hashes qualified
ThetaOK(st, offered) ==
  /\ st.theta <= st.th0
  /\ (st.theta < st.th0 => Cardinality({h \in offered : h[1] < st.th0}) > K(st))
  /\ (st.theta < st.th0 => st.n >= K(st))

\* C18: at most 15/16 * 2k retained
SizeOK(st) == st.n <= (15 * P2(st.lgNom + 1)) \div 16 /\ st.n <= Cap(st)

EmptyOK(st, offered) == st.empty = (offered = {})
===============================================================================
