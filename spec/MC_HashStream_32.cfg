CONSTANTS B = 32  MaxLen = 70  MaxChunk = 70
SPECIFICATION Spec
INVARIANT Inv
CHECK_DEADLOCK FALSE
