------------------------------- MODULE HllUnion -------------------------------
(* HllUnion (hll/union.rs): an Hll8 "gadget" sketch that absorbs sketches of   *)
(* any lgK / type / mode.  Every code path of update() is one operator.        *)
(* A union is [lgMax, g] with g an Hll.tla state of type 8.                    *)
EXTENDS Hll

NewUnion(lgMax) == [lgMax |-> lgMax, g |-> NewSketch(lgMax, 8)]

CouponSeq(src) == IF src.mode = "list" THEN src.list ELSE TabSeq(src.tab, src.setLg)

SketchUpdateAll(st, cs) == FoldLeft(LAMBDA acc, c : Update(acc, c), st, cs)

\* register array of lgK = lg obtained by folding regs (a function on 0..2^srcLg-1)
FoldMax(regs, srcLg, lg) ==
  [s \in 0..(Pow2(lg) - 1) |->
     MaxOf({regs[t] : t \in {x \in 0..(Pow2(srcLg) - 1) : x % Pow2(lg) = s}})]

PointMax(f, g) == [s \in DOMAIN f |-> IF f[s] >= g[s] THEN f[s] ELSE g[s]]

Zeros(cells) == Cardinality({s \in DOMAIN cells : cells[s] = 0})

\* an Hll8 array rebuilt from registers: rebuild_cached_values + set_out_of_order(true)
OooArray8(lg, cells) ==
  [NewArray(lg, 8) EXCEPT !.cells = cells, !.nacm = Zeros(cells), !.ooo = TRUE, !.hipPos = FALSE]

(* copy_or_downsample: a same-or-smaller lgK source is copied (an Hll8 source by    *)
(* max-merge, which marks the copy out of order; an Hll4/Hll6 source coupon by      *)
(* coupon, keeping the source's HIP accumulator and its out-of-order flag); a       *)
(* larger source is folded, which always marks the result out of order.             *)
CopyOrDownsample(src, tgtLg) ==
  IF src.lgk <= tgtLg
  THEN LET cells == Regs(src) IN
       [NewArray(src.lgk, 8) EXCEPT !.cells = cells, !.nacm = Zeros(cells),
                                    !.ooo = (src.type = 8) \/ src.ooo,
                                    !.hipPos = src.hipPos /\ ~src.ooo]
  ELSE OooArray8(tgtLg, FoldMax(Regs(src), src.lgk, tgtLg))

MergeArrayIntoArrayGadget(g, src) ==
  IF src.lgk < g.lgk
  THEN OooArray8(src.lgk, PointMax(FoldMax(g.cells, g.lgk, src.lgk), Regs(src)))
  ELSE OooArray8(g.lgk, PointMax(g.cells, FoldMax(Regs(src), src.lgk, g.lgk)))

PromoteGadgetAndMerge(u, src) ==
  UpdateAll(CopyOrDownsample(src, u.lgMax), CouponSeq(u.g))

UnionUpdate(u, src) ==
  IF IsEmpty(src) THEN u
  ELSE IF src.mode # "arr"
  THEN IF IsEmpty(u.g) /\ src.lgk = u.g.lgk
       THEN [u EXCEPT !.g = [src EXCEPT !.type = 8]]                       \* fast copy
       ELSE [u EXCEPT !.g = SketchUpdateAll(u.g, CouponSeq(src))]          \* coupon by coupon
  ELSE IF IsEmpty(u.g) THEN [u EXCEPT !.g = CopyOrDownsample(src, u.lgMax)]
  ELSE IF u.g.mode = "arr" THEN [u EXCEPT !.g = MergeArrayIntoArrayGadget(u.g, src)]
  ELSE [u EXCEPT !.g = PromoteGadgetAndMerge(u, src)]

UnionValue(u, c) == [u EXCEPT !.g = Update(u.g, c)]
UnionReset(u) == NewUnion(u.lgMax)

\* a register array of the given type holding exactly these register values
FromRegs(lg, type, regs, ooo, hipPos) ==
  LET k == Pow2(lg) IN
  IF type # 4
  THEN [NewArray(lg, type) EXCEPT !.cells = regs, !.nacm = Zeros(regs), !.ooo = ooo, !.hipPos = hipPos]
  ELSE LET cm == MinOf({regs[s] : s \in 0..(k - 1)}) IN
       [NewArray(lg, 4) EXCEPT
          !.cells = [s \in 0..(k - 1) |-> IF regs[s] - cm >= AuxToken THEN AuxToken ELSE regs[s] - cm],
          !.curMin = cm,
          !.nacm = Cardinality({s \in 0..(k - 1) : regs[s] = cm}),
          !.aux = {<<s, regs[s]>> : s \in {t \in 0..(k - 1) : regs[t] - cm >= AuxToken}},
          !.ooo = ooo, !.hipPos = hipPos]

\* to_sketch(t): same abstract state, same out-of-order flag, whatever the type
ToSketch(u, t) ==
  IF t = 8 \/ u.g.mode # "arr" THEN [u.g EXCEPT !.type = t]
  ELSE FromRegs(u.g.lgk, t, u.g.cells, u.g.ooo, u.g.hipPos)

(* ---- abstract layer ------------------------------------------------------ *)
\* inputs: sequence of source sketch states (ghost). The union must equal the sketch
\* of the combined streams folded to the smallest lgK among lgMax and array inputs.
AllCoupons(st) == IF st.mode = "arr"
                  THEN {<<s, Value(st, s)>> : s \in {t \in 0..(KOf(st) - 1) : Value(st, t) > 0}}
                  ELSE Coupons(st)
===============================================================================
