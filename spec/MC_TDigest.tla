------------------------------ MODULE MC_TDigest ------------------------------
(* Exhaustive instance of the query operators: every valid digest with up to   *)
(* MaxN centroids, integer means/min/max in 0..M, weights in WS (heavy first   *)
(* and last centroids included), queried on the half-integer grid of v and on  *)
(* q = i / (4 W).  There are no transitions: every digest is an initial state  *)
(* and the invariants are evaluated on each.                                   *)
EXTENDS TDigest, Json

CONSTANTS M, MaxN, WS, EmitHeavy

VARIABLE d

Digests ==
  {x \in [min : 0..M, max : 0..M, cs : UNION {[1..n -> (0..M) \X WS] : n \in 1..MaxN}] : Valid(x)}

Init == d \in Digests
Next == UNCHANGED d
Spec == Init /\ [][Next]_d

Vs == [i \in 1..(2 * M + 3) |-> <<i - 2, 2>>]             \* -1/2, 0, 1/2, ..., M + 1/2
Qs(x) == [i \in 1..(4 * W(x) + 1) |-> <<i - 1, 4 * W(x)>>]  \* 0, 1/4W, ..., 1

\* pmf over the integer split points sums to 1: telescoping of cdf, last bucket = 1 - rank(last)
Inv == /\ RankMonotone(d, Vs)
       /\ QuantileMonotone(d, Qs(d))
       /\ EndPoints(d)
       /\ Consistent(d, Qs(d))

\* behaviour generator: one line per digest with the expected rank / quantile of every grid point
Heavy(x) == \E i \in 1..N(x) : Wt(x, i) > 1       \* (digests of single values only are reached by plain streams)
Emit == (EmitHeavy /\ Heavy(d)) =>
          PrintT(<<"REPLAY", ToJson([min |-> d.min, max |-> d.max, cs |-> d.cs,
                                     vs |-> Vs, rk |-> [i \in 1..Len(Vs) |-> Rank(d, Vs[i])],
                                     qs |-> Qs(d), qt |-> [i \in 1..Len(Qs(d)) |-> Quantile(d, Qs(d)[i])]])>>)
GInv == Inv /\ Emit
===============================================================================
