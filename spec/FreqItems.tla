------------------------------ MODULE FreqItems ------------------------------
(* Frequent-items sketch (frequencies/sketch.rs) over its reverse-purge linear  *)
(* probing map (frequencies/reverse_purge_item_hash_map.rs), as functions on a *)
(* state record.  An item is <<id, lo>>: lo = low bits of its 64-bit hash, so  *)
(* its home slot in a map of 2^lg slots is lo % 2^lg.  NoK marks a free slot.  *)
EXTENDS Integers, Sequences, FiniteSets, TLC, SequencesExt

CONSTANTS MinLg,       \* lg of the smallest map (3)
          MaxSample    \* purge sample size limit (1024)

NoK == <<0, 0>>
P2(n) == 2 ^ n
Size(st) == P2(st.lgCur)
\* load_threshold = (size * 0.75) as usize
CapOf(lg) == (3 * P2(lg)) \div 4

EmptyMap(lg) == [key |-> [p \in 0..(P2(lg) - 1) |-> NoK],
                 val |-> [p \in 0..(P2(lg) - 1) |-> 0],
                 dr  |-> [p \in 0..(P2(lg) - 1) |-> 0]]

NewFI(lgMaxReq) ==
  LET lgMax == IF lgMaxReq < MinLg THEN MinLg ELSE lgMaxReq IN
  [lgMax |-> lgMax, lgCur |-> MinLg, m |-> EmptyMap(MinLg), nAct |-> 0,
   offset |-> 0, weight |-> 0, curCap |-> CapOf(MinLg),
   sample |-> IF MaxSample < CapOf(lgMax) THEN MaxSample ELSE CapOf(lgMax)]

\* hash_probe: the slot holding the key, or the first free slot on its probe path
RECURSIVE ProbeK(_, _, _, _)
ProbeK(m, size, x, p) ==
  IF m.dr[p] = 0 \/ m.key[p] = x THEN p ELSE ProbeK(m, size, x, (p + 1) % size)

Get(st, x) ==
  LET p == ProbeK(st.m, Size(st), x, x[2] % Size(st)) IN
  IF st.m.dr[p] > 0 THEN st.m.val[p] ELSE 0

\* adjust_or_put_value on a bare map record of 2^lg slots: returns <<map, inserted?>>
PutM(m, lg, x, w) ==
  LET size == P2(lg)
      home == x[2] % size
      p == ProbeK(m, size, x, home) IN
  IF m.dr[p] = 0
  THEN <<[key |-> [m.key EXCEPT ![p] = x], val |-> [m.val EXCEPT ![p] = w],
          dr |-> [m.dr EXCEPT ![p] = ((p - home) % size) + 1]], 1>>
  ELSE <<[m EXCEPT !.val[p] = @ + w], 0>>

\* resize: re-insert every active slot, in slot order, into a map twice the size
Resize(st) ==
  LET lg == st.lgCur + 1
      act == SelectSeq([i \in 1..Size(st) |-> i - 1], LAMBDA p : st.m.dr[p] > 0)
      m2 == FoldLeft(LAMBDA acc, p : PutM(acc, lg, st.m.key[p], st.m.val[p])[1], EmptyMap(lg), act)
  IN [st EXCEPT !.lgCur = lg, !.m = m2, !.curCap = CapOf(lg)]

\* hash_delete: free the slot and shift the following cluster members back
RECURSIVE BackShift(_, _, _, _, _)
BackShift(m, size, dp, probe, drift) ==
  IF m.dr[probe] = 0 THEN m
  ELSE IF m.dr[probe] > drift
       THEN LET m2 == [key |-> [m.key EXCEPT ![dp] = m.key[probe], ![probe] = NoK],
                       val |-> [m.val EXCEPT ![dp] = m.val[probe], ![probe] = 0],
                       dr  |-> [m.dr EXCEPT ![dp] = m.dr[probe] - drift, ![probe] = 0]]
            IN BackShift(m2, size, probe, (probe + 1) % size, 1)
       ELSE BackShift(m, size, dp, (probe + 1) % size, drift + 1)

Delete(m, size, dp) ==
  LET m1 == [key |-> [m.key EXCEPT ![dp] = NoK], val |-> [m.val EXCEPT ![dp] = 0],
             dr |-> [m.dr EXCEPT ![dp] = 0]]
  IN BackShift(m1, size, dp, (dp + 1) % size, 1)

\* keep_only_positive_counts: scan order first_probe-1 .. 0, then size-1 .. first_probe,
\* where first_probe is the highest free slot
RECURSIVE HighestFree(_, _)
HighestFree(m, p) == IF m.dr[p] = 0 THEN p ELSE HighestFree(m, p - 1)

DelIfZero(acc, size, p) ==
  IF acc[1].dr[p] > 0 /\ acc[1].val[p] = 0 THEN <<Delete(acc[1], size, p), acc[2] + 1>> ELSE acc

KeepPositive(m, size) ==
  LET fp == HighestFree(m, size - 1)
      order == [i \in 1..fp |-> fp - i] \o [i \in 1..(size - fp) |-> size - i]
  IN FoldLeft(LAMBDA acc, p : DelIfZero(acc, size, p), <<m, 0>>, order)

\* purge: median of the first `sample` active counters (slot order), subtracted from all
Purge(st) ==
  LET size == Size(st)
      limit == IF st.sample < st.nAct THEN st.sample ELSE st.nAct
      actv == SelectSeq([i \in 1..size |-> i - 1], LAMBDA p : st.m.dr[p] > 0)
      samp == SortSeq([i \in 1..limit |-> st.m.val[actv[i]]], <)
      med == samp[(limit \div 2) + 1]
      m1 == [st.m EXCEPT !.val = [p \in 0..(size - 1) |->
                                    IF st.m.dr[p] > 0 /\ st.m.val[p] > med THEN st.m.val[p] - med ELSE 0]]
      r == KeepPositive(m1, size)
  IN [st EXCEPT !.m = r[1], !.nAct = @ - r[2], !.offset = @ + med]

\* update_with_count
Update(st, x, w) ==
  IF w = 0 THEN st
  ELSE LET r == PutM(st.m, st.lgCur, x, w)
           st1 == [st EXCEPT !.weight = @ + w, !.m = r[1], !.nAct = @ + r[2]]
       IN IF st1.nAct > st1.curCap
          THEN IF st1.lgCur < st1.lgMax THEN Resize(st1) ELSE Purge(st1)
          ELSE st1

IsEmpty(st) == st.weight = 0

\* iteration order of the map: golden-ratio stride ((size * 0.618...) as usize) | 1
GoldenStride(lg) ==
  CASE lg = 2 -> 3 [] lg = 3 -> 5 [] lg = 4 -> 9 [] lg = 5 -> 19 [] lg = 6 -> 39 [] lg = 7 -> 79
    [] lg = 8 -> 159 [] lg = 9 -> 317 [] lg = 10 -> 633 [] lg = 11 -> 1265 [] lg = 12 -> 2531
    [] OTHER -> 1

IterSlots(st) ==
  LET size == Size(st)  s == GoldenStride(st.lgCur) IN
  SelectSeq([j \in 1..size |-> ((j - 1) * s) % size], LAMBDA p : st.m.dr[p] > 0)

\* merge: replay the other sketch's counters in its iteration order, add offsets,
\* restore the combined stream weight
Merge(st, other) ==
  IF IsEmpty(other) THEN st
  ELSE LET total == st.weight + other.weight
           r == FoldLeft(LAMBDA acc, p : Update(acc, other.m.key[p], other.m.val[p]), st, IterSlots(other))
       IN [r EXCEPT !.offset = @ + other.offset, !.weight = total]

Reset(st) == NewFI(st.lgMax)

(* ---- observable quantities ---------------------------------------------- *)
LB(st, x) == Get(st, x)
UB(st, x) == Get(st, x) + st.offset
ActiveKeys(st) == {st.m.key[p] : p \in {q \in 0..(Size(st) - 1) : st.m.dr[q] > 0}}
NoFalsePos(st) == {x \in ActiveKeys(st) : LB(st, x) > st.offset}
NoFalseNeg(st) == {x \in ActiveKeys(st) : UB(st, x) > st.offset}

(* ---- invariants (C07, C18) ---------------------------------------------- *)
\* truth: [item -> exact frequency]; items: the domain to quantify over
Brackets(st, truth, items) ==
  \A x \in items : /\ LB(st, x) <= truth[x] /\ truth[x] <= UB(st, x)
                   /\ UB(st, x) - LB(st, x) <= st.offset

WeightExact(st, total) == st.weight = total

Frequent(st, truth, items) ==
  /\ \A x \in NoFalsePos(st) : truth[x] > st.offset
  /\ \A x \in items : truth[x] > st.offset => x \in NoFalseNeg(st)

\* every active key is found by its own probe; drift states are exact; load is bounded
MapOK(st) ==
  LET size == Size(st) IN
  /\ st.nAct = Cardinality({p \in 0..(size - 1) : st.m.dr[p] > 0})
  /\ \A p \in 0..(size - 1) :
       st.m.dr[p] > 0 =>
         /\ st.m.key[p] # NoK
         /\ ProbeK(st.m, size, st.m.key[p], st.m.key[p][2] % size) = p
         /\ st.m.dr[p] = ((p - (st.m.key[p][2] % size)) % size) + 1
         /\ st.m.val[p] > 0
  /\ st.nAct <= CapOf(st.lgMax)          \* C18: never more than maximum_map_capacity
  /\ st.nAct <= st.curCap
  /\ st.lgCur <= st.lgMax
===============================================================================
