----------------------------- MODULE MC_PairTable -----------------------------
(* Exhaustive toy instance: 4-bit items in a table that starts with 4 slots;   *)
(* every sequence of insert / delete over items whose home slots cluster at    *)
(* the end of the array (wrap-around), with growth and shrinking.              *)
EXTENDS PairTable
CONSTANTS MaxOps
Alphabet == {12, 13, 14, 15, 11, 3, 0, 7}
VARIABLES t, model, ops
vars == <<t, model, ops>>
Init == t = NewPT(2, 4) /\ model = {} /\ ops = 0
Ins(x) == LET r == MaybeInsert(t, x) IN t' = r[1] /\ model' = model \cup {x} /\ r[2] = (x \notin model)
Del(x) == LET r == MaybeDelete(t, x) IN t' = r[1] /\ model' = model \ {x} /\ r[2] = (x \in model)
Next == ops < MaxOps /\ ops' = ops + 1 /\ \E x \in Alphabet : Ins(x) \/ Del(x)
Spec == Init /\ [][Next]_vars
Inv == TableOK(t) /\ Items(t) = model
===============================================================================
