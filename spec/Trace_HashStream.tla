--------------------------- MODULE Trace_HashStream ---------------------------
(* Trace validation: every recorded multi-part hashing run of the real        *)
(* hashers (through the verif hook) must be a behaviour of HashStream, with   *)
(* the logged buffer state equal to the specification's after every write,    *)
(* and the multi-part digest equal to the one-shot digest of the library and  *)
(* of the independent reference (harness/src/refhash.rs).                     *)
EXTENDS HashStream, TLC, Json, IOUtils

Rec == ndJsonDeserialize(IOEnv.TRACE)

VARIABLES l,     \* index of the next event
          blk,   \* block size of the hasher under test
          kind   \* "murmur" | "xx"

tvars == <<vars, l, blk, kind>>

Ev == Rec[l]
IsEv(op) == l <= Len(Rec) /\ Ev.op = op /\ l' = l + 1

TInit == Init /\ l = 1 /\ blk = 16 /\ kind = "murmur"

TrNew ==
  /\ IsEv("New")
  /\ Ev.B \in {16, 32}
  /\ (Ev.h = "murmur") = (Ev.B = 16)
  /\ absorbed' = <<>> /\ buf' = <<>> /\ n' = 0
  /\ blk' = Ev.B /\ kind' = Ev.h

TrWrite ==
  /\ IsEv("Write")
  /\ LET r == WriteResult(blk, St, Range(n + 1, n + Ev.len))
     IN /\ absorbed' = r.absorbed /\ buf' = r.buf /\ n' = r.n
        /\ StreamInv(blk, r)
        /\ IF kind = "murmur" THEN MurmurObs(blk, r) = <<Ev.buf, Ev.tot>>
                              ELSE XxObs(r) = <<Ev.buf, Ev.tot>>
  /\ UNCHANGED <<blk, kind>>

\* C16 (ii)/(iii): multi-part digest = library one-shot digest = reference one-shot digest
TrFinish ==
  /\ IsEv("Finish")
  /\ Ev.n = n
  /\ Ev.dig = Ev.one
  /\ Ev.dig = Ev.ref
  /\ UNCHANGED <<vars, blk, kind>>

\* C16 (iv): a derived quantity (coupon, theta hash, row/col, bucket, bit positions,
\* seed hash) observed through the public API equals the reference derivation.
TrDerive ==
  /\ IsEv("Derive")
  /\ Ev.lib = Ev.ref
  /\ UNCHANGED <<vars, blk, kind>>

TrRun == IsEv("Run") /\ UNCHANGED <<vars, blk, kind>>

TNext == TrRun \/ TrNew \/ TrWrite \/ TrFinish \/ TrDerive
TSpec == TInit /\ [][TNext]_tvars

Accepted ==
  LET d == TLCGet("stats").diameter IN
  IF d - 1 = Len(Rec) THEN TRUE
  ELSE Print(<<"UNMATCHED", d, Rec[d]>>, FALSE)
===============================================================================
