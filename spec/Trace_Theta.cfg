CONSTANTS MinLg = 5  StrideBits = 7
          Check = {"C01", "C04", "C11", "C12", "C13", "C18"}
SPECIFICATION TSpec
POSTCONDITION Accepted
CHECK_DEADLOCK FALSE
