---------------------------- MODULE Trace_CountMin ----------------------------
(* Trace validation for CountMinSketch<T> (every counter type): the table read *)
(* from serialize() must equal the specification's table, whose buckets come   *)
(* from the harness's reference hash; exact weights are kept as a ghost.       *)
EXTENDS CountMin, Json, IOUtils

CONSTANT Check
Rec == ndJsonDeserialize(IOEnv.TRACE)

VARIABLES l, obj, gh    \* gh[i] = [truth |-> [item -> weight], bk |-> [item -> buckets], sum |-> exact total, scaled |-> BOOLEAN]
tvars == <<l, obj, gh>>
Ev == Rec[l]
IsEv(op) == l <= Len(Rec) /\ Ev.op = op /\ l' = l + 1
On(p) == p \in Check
Put(f, i, v) == (i :> v) @@ f
TGet(t, id) == IF id \in DOMAIN t THEN t[id] ELSE 0
Tup(s) == [i \in 1..Len(s) |-> s[i]]

(* ---- binary layout (family 18, serial version 1): 2 preamble longs; total and counters as 8-byte LE ---- *)
LE(x, n) == [i \in 1..n |-> (x \div (256 ^ (i - 1))) % 256]
Val8(x) == LE(x, 4) \o <<0, 0, 0, 0>>        \* non-negative values below 2^31
\* a counter of a signed type may be negative (negative weights): 8 bytes, two's complement (sign-extended)
Val8S(x) == IF x >= 0 THEN Val8(x) ELSE [i \in 1..8 |-> 255 - Val8(-x - 1)[i]]
EncCM(st, sh) ==
  LET empty == st.total = 0 IN
  <<2, 1, 18, IF empty THEN 1 ELSE 0, 0, 0, 0, 0>> \o LE(st.w, 4) \o <<st.d>> \o sh \o <<0>>
  \o (IF empty THEN <<>>
      ELSE Val8(st.total) \o [i \in 1..(8 * st.d * st.w) |-> Val8S(st.tab[(i - 1) \div 8])[((i - 1) % 8) + 1]])

TInit == l = 1 /\ obj = <<>> /\ gh = <<>>
TrRun == IsEv("Run") /\ obj' = <<>> /\ gh' = <<>>

TrNew ==
  /\ IsEv("CNew")
  /\ obj' = Put(obj, Ev.id, NewCM(Ev.d, Ev.w))
  /\ gh' = Put(gh, Ev.id, [truth |-> <<>>, bk |-> <<>>, sum |-> 0, scaled |-> FALSE])

TrUpd ==
  /\ IsEv("CUpd")
  /\ obj' = [obj EXCEPT ![Ev.id] = Update(@, Tup(Ev.b), Ev.wt)]
  /\ gh' = [gh EXCEPT ![Ev.id] = [@ EXCEPT !.truth = (Ev.x :> (TGet(@, Ev.x) + Ev.wt)) @@ @,
                                          !.bk = (Ev.x :> Tup(Ev.b)) @@ @, !.sum = @ + Ev.wt]]
  /\ LET n == obj'[Ev.id] IN
     On("C08") => /\ Ev.est = Estimate(n, Tup(Ev.b))
                  /\ Ev.est >= gh'[Ev.id].truth[Ev.x]
                  /\ Ev.est <= n.total
                  /\ Ev.tot = n.total
                  /\ (~gh[Ev.id].scaled => n.total = gh'[Ev.id].sum)

TrMerge ==
  /\ IsEv("CMerge")
  /\ Compatible(obj[Ev.id], obj[Ev.src])
  /\ obj' = [obj EXCEPT ![Ev.id] = Merge(@, obj[Ev.src])]
  /\ gh' = [gh EXCEPT ![Ev.id] =
              [truth |-> [x \in (DOMAIN @.truth) \cup (DOMAIN gh[Ev.src].truth) |->
                            TGet(@.truth, x) + TGet(gh[Ev.src].truth, x)],
               bk |-> gh[Ev.src].bk @@ @.bk, sum |-> @.sum + gh[Ev.src].sum,
               scaled |-> @.scaled \/ gh[Ev.src].scaled]]
  /\ On("C08") => Ev.tot = obj'[Ev.id].total

TrHalve ==
  /\ IsEv("CHalve")
  /\ obj' = [obj EXCEPT ![Ev.id] = Halve(@)]
  /\ gh' = [gh EXCEPT ![Ev.id] = [@ EXCEPT !.truth = [x \in DOMAIN @ |-> @[x] \div 2], !.scaled = TRUE]]
  /\ On("C08") => Ev.tot = obj'[Ev.id].total

TrDecay ==
  /\ IsEv("CDecay")
  /\ obj' = [obj EXCEPT ![Ev.id] = Decay(@, Ev.num, Ev.den)]
  /\ gh' = [gh EXCEPT ![Ev.id] = [@ EXCEPT !.truth = [x \in DOMAIN @ |-> Scale(@[x], Ev.num, Ev.den)], !.scaled = TRUE]]
  /\ On("C08") => Ev.tot = obj'[Ev.id].total

\* checkpoint: the whole table, and estimate / bounds for every item seen so far and some never seen
TrChk ==
  /\ IsEv("CChk")
  /\ LET st == obj[Ev.id]  g == gh[Ev.id] IN
     On("C08") =>
       /\ [i \in 1..Len(Ev.table) |-> Ev.table[i]] = [i \in 1..(st.d * st.w) |-> st.tab[i - 1]]
       /\ Ev.tot = st.total
       /\ \A k \in 1..Len(Ev.q) :
            LET q == Ev.q[k]  e == Estimate(st, Tup(q.b)) IN
            /\ q.est = e /\ q.lb = e
            /\ e >= TGet(g.truth, q.x)
            /\ e <= st.total
  /\ (On("C12") /\ "img" \in DOMAIN Ev) =>
        [i \in 1..Len(Ev.img) |-> Ev.img[i]] = EncCM(obj[Ev.id], [i \in 1..2 |-> Ev.sh[i]])
  /\ On("C18") => Ev.len = 16 + (IF obj[Ev.id].total = 0 THEN 0 ELSE 8 * (1 + obj[Ev.id].d * obj[Ev.id].w))
  /\ UNCHANGED <<obj, gh>>

\* signed counter types also take negative weights: the total grows by |wt|, the counters by wt (no
\* one-sided guarantee is claimed for such streams; state, image and size are)
UpdateS(st, b, wt) ==
  IF wt = 0 THEN st
  ELSE [st EXCEPT !.total = @ + (IF wt < 0 THEN -wt ELSE wt),
                  !.tab = [i \in DOMAIN st.tab |->
                             IF \E r \in 1..st.d : Idx(st, r, b) = i THEN st.tab[i] + wt ELSE st.tab[i]]]
TrUpdS ==
  /\ IsEv("CUpdS")
  /\ obj' = [obj EXCEPT ![Ev.id] = UpdateS(@, Tup(Ev.b), Ev.wt)]
  /\ gh' = [gh EXCEPT ![Ev.id].scaled = TRUE]
  /\ (On("C08") \/ On("C12")) => Ev.tot = obj'[Ev.id].total
TrChkS ==
  /\ IsEv("CChkS")
  /\ LET st == obj[Ev.id] IN
     /\ (On("C08") \/ On("C12") \/ On("C11")) =>
          /\ [i \in 1..Len(Ev.table) |-> Ev.table[i]] = [i \in 1..(st.d * st.w) |-> st.tab[i - 1]]
          /\ Ev.tot = st.total
     /\ On("C12") => [i \in 1..Len(Ev.img) |-> Ev.img[i]] = EncCM(st, [i \in 1..2 |-> Ev.sh[i]])
     /\ On("C11") => Ev.rt_same
     /\ On("C18") => Ev.len = 16 + (IF st.total = 0 THEN 0 ELSE 8 * (1 + st.d * st.w))
  /\ UNCHANGED <<obj, gh>>

TrRT ==
  /\ IsEv("CRT")
  /\ obj' = Put(obj, Ev.to, obj[Ev.id])
  /\ gh' = Put(gh, Ev.to, gh[Ev.id])
  /\ On("C11") => (Ev.same /\ Ev.eq)

\* merge() offered a sketch of another shape or seed (same or different number of cells): refused
TrMergeTry ==
  /\ IsEv("CMergeTry")
  /\ On("C08") => Ev.accepted = MergeAccepts(Ev.a[1], Ev.a[2], Ev.a[3], Ev.b[1], Ev.b[2], Ev.b[3])
  /\ UNCHANGED <<obj, gh>>

(* ---- u64 / i64 instances with quantities above 2^31 (up to 2^64): limbs, see Wide.tla ---- *)
Lm(x) == [i \in 1..4 |-> x[i]]
WGet(t, id) == IF id \in DOMAIN t THEN t[id] ELSE W!WZero
Val8W(x) == [i \in 1..8 |-> IF i % 2 = 1 THEN x[(i + 1) \div 2] % 256 ELSE x[i \div 2] \div 256]
EncCMW(st, sh) ==
  LET empty == st.total = W!WZero IN
  <<2, 1, 18, IF empty THEN 1 ELSE 0, 0, 0, 0, 0>> \o LE(st.w, 4) \o <<st.d>> \o sh \o <<0>>
  \o (IF empty THEN <<>>
      ELSE Val8W(st.total) \o [i \in 1..(8 * st.d * st.w) |-> Val8W(st.tab[(i - 1) \div 8])[((i - 1) % 8) + 1]])

TrWNew ==
  /\ IsEv("WNew")
  /\ obj' = Put(obj, Ev.id, NewCMW(Ev.d, Ev.w))
  /\ gh' = Put(gh, Ev.id, [truth |-> <<>>, bk |-> <<>>])

TrWUpd ==
  /\ IsEv("WUpd")
  /\ obj' = [obj EXCEPT ![Ev.id] = UpdateW(@, Tup(Ev.b), Lm(Ev.wt))]
  /\ gh' = [gh EXCEPT ![Ev.id] = [@ EXCEPT !.truth = (Ev.x :> W!WAdd(WGet(@, Ev.x), Lm(Ev.wt))) @@ @,
                                            !.bk = (Ev.x :> Tup(Ev.b)) @@ @]]
  /\ LET n == obj'[Ev.id] IN
     On("C08") => /\ Lm(Ev.est) = EstimateW(n, Tup(Ev.b))
                  /\ W!WLeq(gh'[Ev.id].truth[Ev.x], Lm(Ev.est))
                  /\ W!WLeq(Lm(Ev.est), n.total)
                  /\ Lm(Ev.tot) = n.total

TrWMerge ==
  /\ IsEv("WMerge")
  /\ Compatible(obj[Ev.id], obj[Ev.src])
  /\ obj' = [obj EXCEPT ![Ev.id] = MergeW(@, obj[Ev.src])]
  /\ gh' = [gh EXCEPT ![Ev.id] =
              [truth |-> [x \in (DOMAIN @.truth) \cup (DOMAIN gh[Ev.src].truth) |->
                            W!WAdd(WGet(@.truth, x), WGet(gh[Ev.src].truth, x))],
               bk |-> gh[Ev.src].bk @@ @.bk]]
  /\ On("C08") => Lm(Ev.tot) = obj'[Ev.id].total

TrWHalve ==
  /\ IsEv("WHalve")
  /\ obj' = [obj EXCEPT ![Ev.id] = HalveW(@)]
  /\ gh' = [gh EXCEPT ![Ev.id] = [@ EXCEPT !.truth = [x \in DOMAIN @ |-> W!WHalf(@[x])]]]
  /\ On("C08") => Lm(Ev.tot) = obj'[Ev.id].total

TrWDecay ==
  /\ IsEv("WDecay")
  /\ LET F == {<<Lm(Ev.f[i][1]), Lm(Ev.f[i][2])>> : i \in 1..Len(Ev.f)}
         st == obj[Ev.id]  g == gh[Ev.id] IN
     /\ WCovers(F, {st.tab[i] : i \in DOMAIN st.tab} \cup {st.total} \cup {g.truth[x] : x \in DOMAIN g.truth})
     /\ WMonotone(F)
     /\ obj' = [obj EXCEPT ![Ev.id] = DecayW(@, F)]
     /\ gh' = [gh EXCEPT ![Ev.id] = [@ EXCEPT !.truth = [x \in DOMAIN @ |-> WApply(F, @[x])]]]
  /\ On("C08") => Lm(Ev.tot) = obj'[Ev.id].total

TrWChk ==
  /\ IsEv("WChk")
  /\ LET st == obj[Ev.id]  g == gh[Ev.id] IN
     On("C08") =>
       /\ [i \in 1..Len(Ev.table) |-> Lm(Ev.table[i])] = [i \in 1..(st.d * st.w) |-> st.tab[i - 1]]
       /\ Lm(Ev.tot) = st.total
       /\ \A k \in 1..Len(Ev.q) :
            LET q == Ev.q[k]  e == EstimateW(st, Tup(q.b)) IN
            /\ Lm(q.est) = e /\ Lm(q.lb) = e
            /\ W!WLeq(WGet(g.truth, q.x), e)
            /\ W!WLeq(e, st.total)
            /\ W!WLeq(e, Lm(q.ub))
  /\ (On("C12") /\ "img" \in DOMAIN Ev) =>
        [i \in 1..Len(Ev.img) |-> Ev.img[i]] = EncCMW(obj[Ev.id], [i \in 1..2 |-> Ev.sh[i]])
  /\ UNCHANGED <<obj, gh>>

TrPanic == IsEv("Panic") /\ FALSE /\ UNCHANGED <<obj, gh>>

TNext == TrRun \/ TrNew \/ TrUpdS \/ TrChkS \/ TrUpd \/ TrMerge \/ TrHalve \/ TrDecay \/ TrChk \/ TrRT \/ TrMergeTry
         \/ TrWNew \/ TrWUpd \/ TrWMerge \/ TrWHalve \/ TrWDecay \/ TrWChk \/ TrPanic
TSpec == TInit /\ [][TNext]_tvars

Accepted ==
  LET d == TLCGet("stats").diameter IN
  IF d - 1 = Len(Rec) THEN TRUE
  ELSE Print(<<"UNMATCHED", d, Rec[d]>>, FALSE)
===============================================================================
