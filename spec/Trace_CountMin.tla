---------------------------- MODULE Trace_CountMin ----------------------------
(* Trace validation for CountMinSketch<T> (every counter type): the table read *)
(* from serialize() must equal the specification's table, whose buckets come   *)
(* from the harness's reference hash; exact weights are kept as a ghost.       *)
EXTENDS CountMin, Json, IOUtils

CONSTANT Check
Rec == ndJsonDeserialize(IOEnv.TRACE)

VARIABLES l, obj, gh    \* gh[i] = [truth |-> [item -> weight], bk |-> [item -> buckets], sum |-> exact total, scaled |-> BOOLEAN]
tvars == <<l, obj, gh>>
Ev == Rec[l]
IsEv(op) == l <= Len(Rec) /\ Ev.op = op /\ l' = l + 1
On(p) == p \in Check
Put(f, i, v) == (i :> v) @@ f
TGet(t, id) == IF id \in DOMAIN t THEN t[id] ELSE 0
Tup(s) == [i \in 1..Len(s) |-> s[i]]

TInit == l = 1 /\ obj = <<>> /\ gh = <<>>
TrRun == IsEv("Run") /\ obj' = <<>> /\ gh' = <<>>

TrNew ==
  /\ IsEv("CNew")
  /\ obj' = Put(obj, Ev.id, NewCM(Ev.d, Ev.w))
  /\ gh' = Put(gh, Ev.id, [truth |-> <<>>, bk |-> <<>>, sum |-> 0, scaled |-> FALSE])

TrUpd ==
  /\ IsEv("CUpd")
  /\ obj' = [obj EXCEPT ![Ev.id] = Update(@, Tup(Ev.b), Ev.wt)]
  /\ gh' = [gh EXCEPT ![Ev.id] = [@ EXCEPT !.truth = (Ev.x :> (TGet(@, Ev.x) + Ev.wt)) @@ @,
                                          !.bk = (Ev.x :> Tup(Ev.b)) @@ @, !.sum = @ + Ev.wt]]
  /\ LET n == obj'[Ev.id] IN
     On("C08") => /\ Ev.est = Estimate(n, Tup(Ev.b))
                  /\ Ev.est >= gh'[Ev.id].truth[Ev.x]
                  /\ Ev.est <= n.total
                  /\ Ev.tot = n.total
                  /\ (~gh[Ev.id].scaled => n.total = gh'[Ev.id].sum)

TrMerge ==
  /\ IsEv("CMerge")
  /\ Compatible(obj[Ev.id], obj[Ev.src])
  /\ obj' = [obj EXCEPT ![Ev.id] = Merge(@, obj[Ev.src])]
  /\ gh' = [gh EXCEPT ![Ev.id] =
              [truth |-> [x \in (DOMAIN @.truth) \cup (DOMAIN gh[Ev.src].truth) |->
                            TGet(@.truth, x) + TGet(gh[Ev.src].truth, x)],
               bk |-> gh[Ev.src].bk @@ @.bk, sum |-> @.sum + gh[Ev.src].sum,
               scaled |-> @.scaled \/ gh[Ev.src].scaled]]
  /\ On("C08") => Ev.tot = obj'[Ev.id].total

TrHalve ==
  /\ IsEv("CHalve")
  /\ obj' = [obj EXCEPT ![Ev.id] = Halve(@)]
  /\ gh' = [gh EXCEPT ![Ev.id] = [@ EXCEPT !.truth = [x \in DOMAIN @ |-> @[x] \div 2], !.scaled = TRUE]]
  /\ On("C08") => Ev.tot = obj'[Ev.id].total

TrDecay ==
  /\ IsEv("CDecay")
  /\ obj' = [obj EXCEPT ![Ev.id] = Decay(@, Ev.num, Ev.den)]
  /\ gh' = [gh EXCEPT ![Ev.id] = [@ EXCEPT !.truth = [x \in DOMAIN @ |-> Scale(@[x], Ev.num, Ev.den)], !.scaled = TRUE]]
  /\ On("C08") => Ev.tot = obj'[Ev.id].total

\* checkpoint: the whole table, and estimate / bounds for every item seen so far and some never seen
TrChk ==
  /\ IsEv("CChk")
  /\ LET st == obj[Ev.id]  g == gh[Ev.id] IN
     On("C08") =>
       /\ [i \in 1..Len(Ev.table) |-> Ev.table[i]] = [i \in 1..(st.d * st.w) |-> st.tab[i - 1]]
       /\ Ev.tot = st.total
       /\ \A k \in 1..Len(Ev.q) :
            LET q == Ev.q[k]  e == Estimate(st, Tup(q.b)) IN
            /\ q.est = e /\ q.lb = e
            /\ e >= TGet(g.truth, q.x)
            /\ e <= st.total
  /\ On("C18") => Ev.len = 16 + (IF obj[Ev.id].total = 0 THEN 0 ELSE 8 * (1 + obj[Ev.id].d * obj[Ev.id].w))
  /\ UNCHANGED <<obj, gh>>

TrRT ==
  /\ IsEv("CRT")
  /\ obj' = Put(obj, Ev.to, obj[Ev.id])
  /\ gh' = Put(gh, Ev.to, gh[Ev.id])
  /\ On("C11") => (Ev.same /\ Ev.eq)

TrPanic == IsEv("Panic") /\ FALSE /\ UNCHANGED <<obj, gh>>

TNext == TrRun \/ TrNew \/ TrUpd \/ TrMerge \/ TrHalve \/ TrDecay \/ TrChk \/ TrRT \/ TrPanic
TSpec == TInit /\ [][TNext]_tvars

Accepted ==
  LET d == TLCGet("stats").diameter IN
  IF d - 1 = Len(Rec) THEN TRUE
  ELSE Print(<<"UNMATCHED", d, Rec[d]>>, FALSE)
===============================================================================
