---------------------------- MODULE Trace_CountMin ----------------------------
(* Trace validation for CountMinSketch<T> (every counter type): the table read *)
(* from serialize() must equal the specification's table, whose buckets come   *)
(* from the harness's reference hash; exact weights are kept as a ghost.       *)
EXTENDS CountMin, Json, IOUtils

CONSTANT Check
Rec == ndJsonDeserialize(IOEnv.TRACE)

VARIABLES l, obj, gh    \* gh[i] = [truth |-> [item -> weight], bk |-> [item -> buckets], sum |-> exact total, scaled |-> BOOLEAN]
tvars == <<l, obj, gh>>
Ev == Rec[l]
IsEv(op) == l <= Len(Rec) /\ Ev.op = op /\ l' = l + 1
On(p) == p \in Check
Put(f, i, v) == (i :> v) @@ f
TGet(t, id) == IF id \in DOMAIN t THEN t[id] ELSE 0
Tup(s) == [i \in 1..Len(s) |-> s[i]]

(* ---- binary layout (family 18, serial version 1): 2 preamble longs; total and counters as 8-byte LE ---- *)
LE(x, n) == [i \in 1..n |-> (x \div (256 ^ (i - 1))) % 256]
Val8(x) == LE(x, 4) \o <<0, 0, 0, 0>>        \* non-negative values below 2^31
EncCM(st, sh) ==
  LET empty == st.total = 0 IN
  <<2, 1, 18, IF empty THEN 1 ELSE 0, 0, 0, 0, 0>> \o LE(st.w, 4) \o <<st.d>> \o sh \o <<0>>
  \o (IF empty THEN <<>>
      ELSE Val8(st.total) \o [i \in 1..(8 * st.d * st.w) |-> Val8(st.tab[(i - 1) \div 8])[((i - 1) % 8) + 1]])

TInit == l = 1 /\ obj = <<>> /\ gh = <<>>
TrRun == IsEv("Run") /\ obj' = <<>> /\ gh' = <<>>

TrNew ==
  /\ IsEv("CNew")
  /\ obj' = Put(obj, Ev.id, NewCM(Ev.d, Ev.w))
  /\ gh' = Put(gh, Ev.id, [truth |-> <<>>, bk |-> <<>>, sum |-> 0, scaled |-> FALSE])

TrUpd ==
  /\ IsEv("CUpd")
  /\ obj' = [obj EXCEPT ![Ev.id] = Update(@, Tup(Ev.b), Ev.wt)]
  /\ gh' = [gh EXCEPT ![Ev.id] = [@ EXCEPT !.truth = (Ev.x :> (TGet(@, Ev.x) + Ev.wt)) @@ @,
                                          !.bk = (Ev.x :> Tup(Ev.b)) @@ @, !.sum = @ + Ev.wt]]
  /\ LET n == obj'[Ev.id] IN
     On("C08") => /\ Ev.est = Estimate(n, Tup(Ev.b))
                  /\ Ev.est >= gh'[Ev.id].truth[Ev.x]
                  /\ Ev.est <= n.total
                  /\ Ev.tot = n.total
                  /\ (~gh[Ev.id].scaled => n.total = gh'[Ev.id].sum)

TrMerge ==
  /\ IsEv("CMerge")
  /\ Compatible(obj[Ev.id], obj[Ev.src])
  /\ obj' = [obj EXCEPT ![Ev.id] = Merge(@, obj[Ev.src])]
  /\ gh' = [gh EXCEPT ![Ev.id] =
              [truth |-> [x \in (DOMAIN @.truth) \cup (DOMAIN gh[Ev.src].truth) |->
                            TGet(@.truth, x) + TGet(gh[Ev.src].truth, x)],
               bk |-> gh[Ev.src].bk @@ @.bk, sum |-> @.sum + gh[Ev.src].sum,
               scaled |-> @.scaled \/ gh[Ev.src].scaled]]
  /\ On("C08") => Ev.tot = obj'[Ev.id].total

TrHalve ==
  /\ IsEv("CHalve")
  /\ obj' = [obj EXCEPT ![Ev.id] = Halve(@)]
  /\ gh' = [gh EXCEPT ![Ev.id] = [@ EXCEPT !.truth = [x \in DOMAIN @ |-> @[x] \div 2], !.scaled = TRUE]]
  /\ On("C08") => Ev.tot = obj'[Ev.id].total

TrDecay ==
  /\ IsEv("CDecay")
  /\ obj' = [obj EXCEPT ![Ev.id] = Decay(@, Ev.num, Ev.den)]
  /\ gh' = [gh EXCEPT ![Ev.id] = [@ EXCEPT !.truth = [x \in DOMAIN @ |-> Scale(@[x], Ev.num, Ev.den)], !.scaled = TRUE]]
  /\ On("C08") => Ev.tot = obj'[Ev.id].total

\* checkpoint: the whole table, and estimate / bounds for every item seen so far and some never seen
TrChk ==
  /\ IsEv("CChk")
  /\ LET st == obj[Ev.id]  g == gh[Ev.id] IN
     On("C08") =>
       /\ [i \in 1..Len(Ev.table) |-> Ev.table[i]] = [i \in 1..(st.d * st.w) |-> st.tab[i - 1]]
       /\ Ev.tot = st.total
       /\ \A k \in 1..Len(Ev.q) :
            LET q == Ev.q[k]  e == Estimate(st, Tup(q.b)) IN
            /\ q.est = e /\ q.lb = e
            /\ e >= TGet(g.truth, q.x)
            /\ e <= st.total
  /\ (On("C12") /\ "img" \in DOMAIN Ev) =>
        [i \in 1..Len(Ev.img) |-> Ev.img[i]] = EncCM(obj[Ev.id], [i \in 1..2 |-> Ev.sh[i]])
  /\ On("C18") => Ev.len = 16 + (IF obj[Ev.id].total = 0 THEN 0 ELSE 8 * (1 + obj[Ev.id].d * obj[Ev.id].w))
  /\ UNCHANGED <<obj, gh>>

TrRT ==
  /\ IsEv("CRT")
  /\ obj' = Put(obj, Ev.to, obj[Ev.id])
  /\ gh' = Put(gh, Ev.to, gh[Ev.id])
  /\ On("C11") => (Ev.same /\ Ev.eq)

TrPanic == IsEv("Panic") /\ FALSE /\ UNCHANGED <<obj, gh>>

TNext == TrRun \/ TrNew \/ TrUpd \/ TrMerge \/ TrHalve \/ TrDecay \/ TrChk \/ TrRT \/ TrPanic
TSpec == TInit /\ [][TNext]_tvars

Accepted ==
  LET d == TLCGet("stats").diameter IN
  IF d - 1 = Len(Rec) THEN TRUE
  ELSE Print(<<"UNMATCHED", d, Rec[d]>>, FALSE)
===============================================================================
