------------------------------ MODULE Gen_Theta ------------------------------
(* Behaviour generator for the theta sketch at real constants (lg_k = 5: k =   *)
(* 32, table 32/64 slots, rebuild at > 60).  Hash values are small integers    *)
(* (rank = low bits = value) injected through the hook; a scripted prefix      *)
(* fills the table, then TLC explores every sequence of offers (colliding in   *)
(* index and stride, adjacent to the rebuild threshold), trim, reset.  One      *)
(* behaviour per distinct table state (history hidden by the VIEW).            *)
EXTENDS Theta, Json

CONSTANTS LgNom, Rf, Prefix, Alphabet, Depth

VARIABLES st, hist
vars == <<st, hist>>

H(x) == <<x, x>>
Mx == 1073741823

Lay(s, h) == IF NeedsRebuildOnInsert(s, h) THEN CanonLayout(Placed(s, h)) ELSE <<>>
Off(s, x) == Offer(s, H(x), Lay(s, H(x)))

GInit == /\ st = FoldLeft(LAMBDA acc, x : Off(acc, x), NewTheta(LgNom, Rf, Mx, Mx), Prefix)
         /\ hist = [i \in 1..Len(Prefix) |-> <<"o", Prefix[i]>>]

GNext ==
  /\ Len(hist) < Len(Prefix) + Depth
  /\ \/ \E x \in Alphabet : st' = Off(st, x) /\ hist' = Append(hist, <<"o", x>>)
     \/ st' = Trim(st, IF st.n > K(st) THEN CanonLayout(st) ELSE <<>>) /\ hist' = Append(hist, <<"t">>)
     \/ st' = Reset(st) /\ hist' = Append(hist, <<"r">>)

GSpec == GInit /\ [][GNext]_vars
View == st

Emit == PrintT(<<"REPLAY", ToJson([lgk |-> LgNom, rf |-> Rf, ops |-> hist])>>)
GInv == TableOK(st) /\ SizeOK(st) /\ Emit

\* 58 spread values: two more inserts reach the rebuild threshold (n > 60)
P58 == [i \in 1..58 |-> 100 + 37 * i]
\* collide with prefix entries in the index (mod 64) and stride ((h >> 6) & 127), plus
\* values around what theta will become (the 33rd smallest = 100 + 37*33 = 1321)
A58 == { 137 + 64, 137 + 64 * 128, 137 + 128, 5, 6, 1320, 1321, 1322, 3000, 137 }
\* small table (rf = 1: 32 slots first): resize at > 16
P14 == [i \in 1..14 |-> 7 + 32 * i]
A14 == { 7, 7 + 32 * 40, 7 + 32 * 41 + 1, 8, 9, 40, 1000, 7 + 64 }
===============================================================================
