-------------------------------- MODULE MC_Cpc --------------------------------
(* Exhaustive toy instance of the CPC sketch: K = 2 rows x 7 columns, 2-bit    *)
(* window, real threshold ratios.  Every order and multiplicity of coupons,    *)
(* through sparse -> windowed promotion and window offsets 0..3 with           *)
(* surprising ones right of the window and surprising zeros left of it.        *)
EXTENDS Cpc

CONSTANTS LgK

VARIABLES st, bits
vars == <<st, bits>>

Init == st = NewCpc(LgK) /\ bits = [i \in 0..(P2(LgK) - 1) |-> {}]

Offer(r, col) == st' = RowCol(st, r, col) /\ bits' = [bits EXCEPT ![r] = @ \cup {col}]

Next == \E r \in 0..(P2(LgK) - 1), col \in 0..(NumCols - 1) : Offer(r, col)
Spec == Init /\ [][Next]_vars

Inv == MatrixOK(st, bits) /\ CountOK(st) /\ OffsetOK(st) /\ FicSound(st) /\ ShapeOK(st)
===============================================================================
