CONSTANTS ListCap = 2  InitSetLg = 2  SetLgOff = 1  AuxToken = 3  MaxVal = 6
          LgMax = 3  MaxHarvest = 2  MaxSteps = 6
SPECIFICATION Spec
INVARIANT Inv
CHECK_DEADLOCK FALSE
