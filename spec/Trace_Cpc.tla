------------------------------- MODULE Trace_Cpc -------------------------------
(* Trace validation for CpcSketch / CpcUnion: (row, col) coupons are derived by *)
(* the harness's reference hash (or crafted through the hook); the model bit   *)
(* matrix of everything offered is a ghost of the trace specification.         *)
EXTENDS Cpc, Json, IOUtils

CONSTANT Check
PT == INSTANCE PairTable
Rec == ndJsonDeserialize(IOEnv.TRACE)

VARIABLES l, obj, bits, uni, ubits   \* bits[i]: model matrix of sketch i; ubits[u] = [lgk, m]: model of union u
tvars == <<l, obj, bits, uni, ubits>>
\* fingerprint of a state = the position in the trace (validation is deterministic: one state per position);
\* fingerprinting the whole state would cost time proportional to its size at every event
ViewL == l
Ev == Rec[l]
IsEv(op) == l <= Len(Rec) /\ Ev.op = op /\ l' = l + 1
On(p) == p \in Check
Put(f, i, v) == (i :> v) @@ f
SeqSet(s) == {s[i] : i \in 1..Len(s)}
NonDecreasing(s) == \A i \in 1..(Len(s) - 1) : s[i] <= s[i + 1]

(* ---- binary layout (family 16, serial version 1, compressed form): preamble of 2..9 ints whose ----
   ---- fields depend on (has HIP, has table, has window); the entropy-coded words are opaque here  ---- *)
LE(x, n) == [i \in 1..n |-> (x \div (256 ^ (i - 1))) % 256]
B(e) == [i \in 1..Len(e) |-> e[i]]
HasHip(st) == ~st.merged
HasWindow(st) == Flavor(KOf(st), st.c) \in {"pinned", "sliding"}
HasTable(st) == Flavor(KOf(st), st.c) \in {"sparse", "hybrid"} \/ (HasWindow(st) /\ st.tab # {})
PreInts(st) == 2 + (IF st.c = 0 THEN 0
                    ELSE 1 + (IF HasHip(st) THEN 4 ELSE 0)
                           + (IF HasTable(st) THEN 1 + (IF HasWindow(st) THEN 1 ELSE 0) ELSE 0)
                           + (IF HasWindow(st) THEN 1 ELSE 0))
\* sh: seed hash (2 bytes); hipb: kxp and the HIP accumulator (16 bytes); nt / nw: number of table / window words
CpcHeader(st, sh, hipb, nt, nw) ==
  LET both == HasTable(st) /\ HasWindow(st)
      flags == 2 + (IF HasHip(st) THEN 4 ELSE 0) + (IF HasTable(st) THEN 8 ELSE 0) + (IF HasWindow(st) THEN 16 ELSE 0) IN
  <<PreInts(st), 1, 16, st.lgk, st.fic, flags>> \o sh
  \o (IF st.c = 0 THEN <<>>
      ELSE LE(st.c, 4)
           \o (IF both THEN LE(Cardinality(st.tab), 4) \o (IF HasHip(st) THEN hipb ELSE <<>>) ELSE <<>>)
           \o (IF HasTable(st) THEN LE(nt, 4) ELSE <<>>)
           \o (IF HasWindow(st) THEN LE(nw, 4) ELSE <<>>)
           \o (IF HasHip(st) /\ ~both THEN hipb ELSE <<>>))
ImgOK(st, e) ==
  ("img" \in DOMAIN e) =>
    LET h == CpcHeader(st, B(e.sh), B(e.hipb), e.nt, e.nw) IN
    /\ Len(h) = 4 * PreInts(st)
    /\ SubSeq(B(e.img), 1, Len(h)) = h
    /\ Len(e.img) = Len(h) + 4 * ((IF HasTable(st) THEN e.nt ELSE 0) + (IF HasWindow(st) THEN e.nw ELSE 0))

Sc(st) == [c |-> st.c, off |-> st.off, fic |-> st.fic, nt |-> Cardinality(st.tab), w |-> Windowed(st)]

\* full state as logged from CpcSketch::verif_state()
MatOf(e) == [i \in 0..(Len(e) - 1) |-> SeqSet(e[i + 1])]
PairsOf(e) == {<<e[i][1], e[i][2]>> : i \in 1..Len(e)}

FullOK(st, e) ==
  /\ Sc(st) = e.st
  /\ PairsOf(e.tab) = st.tab
  /\ (Windowed(st) => MatOf(e.win) = st.win)
  /\ (~Windowed(st) => e.win = <<>>)
  /\ MatOf(e.mat) = Matrix(st)
  /\ e.merged = st.merged
  /\ e.valid                             \* validate() of the real sketch
  /\ CountOK(st) /\ OffsetOK(st) /\ FicSound(st) /\ ShapeOK(st)

\* C01 (advertised spread): the one-sigma bounds are estimate / (1 +- e) with e the relative standard
\* error of the estimator in use: sqrt(ln 2 / 2)/sqrt(k) for HIP, ln 2/sqrt(k) for ICON (merged sketches);
\* 10^-6 units. The empirical constants used for lg_k <= 14 lie within 1% (HIP), 4% (ICON, lg_k >= 8)
\* and 16% (ICON, lg_k < 8) of these.
CpcRse6(lgk, merged) ==
  LET t == IF lgk % 2 = 0 THEN (IF merged THEN 693147 ELSE 588705)
           ELSE (IF merged THEN 490129 ELSE 416277)            \* divided by sqrt 2
  IN t \div P2(lgk \div 2)
CpcRelOK(st, o) ==
  o.big => LET e == CpcRse6(st.lgk, st.merged)
               tol == IF st.merged /\ st.lgk < 8 THEN 17 ELSE 4 IN
           \A i \in 1..2 : /\ o.rel[i] * 100 >= (100 - tol) * e
                             /\ o.rel[i] * 100 <= (100 + tol) * e

ObsOK(st, o) ==
  /\ On("C01") => (NonDecreasing(o.b) /\ CpcRelOK(st, o))
  \* (C01 too: the ICON estimate of a merged sketch is a function of the coupon count alone)
  /\ (On("C01") \/ On("C05") \/ On("C06")) => (o.emp = (st.c = 0) /\ o.c = st.c)

\* the table selectors the writer derives (hook): pseudo-phase and Golomb base bits
SelOK(st, e) ==
  /\ e.sel[1] = PseudoPhase(st.lgk, st.c)
  /\ e.sel[2] = GolombBaseBits(st.lgk, EncodedPairs(st))
  /\ e.selp = EncodedPairs(st)

TInit == l = 1 /\ obj = <<>> /\ bits = <<>> /\ uni = <<>> /\ ubits = <<>>
TrRun == IsEv("Run") /\ obj' = <<>> /\ bits' = <<>> /\ uni' = <<>> /\ ubits' = <<>>

TrNew ==
  /\ IsEv("PNew")
  /\ obj' = Put(obj, Ev.id, NewCpc(Ev.lgk))
  /\ bits' = Put(bits, Ev.id, [i \in 0..(P2(Ev.lgk) - 1) |-> {}])
  /\ UNCHANGED <<uni, ubits>>

TrUpd ==
  /\ IsEv("PUpd")
  /\ obj' = [obj EXCEPT ![Ev.id] = RowCol(@, Ev.rc[1], Ev.rc[2])]
  /\ bits' = [bits EXCEPT ![Ev.id][Ev.rc[1]] = @ \cup {Ev.rc[2]}]
  /\ On("C05") => Sc(obj'[Ev.id]) = Ev.st
  \* the image of every state (lg_k <= 10) is read back and written again to the same bytes
  /\ ((On("C11") \/ On("C17")) /\ "rtok" \in DOMAIN Ev) => Ev.rtok
  /\ (On("C12") /\ "sel" \in DOMAIN Ev) => SelOK(obj'[Ev.id], Ev)
  \* raw slots of the pair table (logged after deletions and periodically): every stored pair
  \* must be reachable by its own probe sequence, and the slots hold exactly the surprising pairs
  /\ (On("C05") /\ "ts" \in DOMAIN Ev) =>
        LET sl == [p \in 0..(Len(Ev.ts) - 1) |-> Ev.ts[p + 1]] IN
        /\ PT!Reachable(sl, Ev.tlg, 6 + obj[Ev.id].lgk)
        /\ {sl[p] : p \in DOMAIN sl} \ {PT!Empty} = {q[1] * 64 + q[2] : q \in obj'[Ev.id].tab}
  /\ ObsOK(obj'[Ev.id], Ev.o)
  /\ UNCHANGED <<uni, ubits>>

TrChk ==
  /\ IsEv("PChk")
  /\ (On("C05") \/ On("C06")) => (FullOK(obj[Ev.id], Ev) /\ Matrix(obj[Ev.id]) = bits[Ev.id])
  /\ ObsOK(obj[Ev.id], Ev.o)
  \* the kxp register read from the image of an un-merged sketch (kxp * 2^64 on five limbs)
  /\ ((On("C01") \/ On("C05")) /\ "kxp" \in DOMAIN Ev) =>
        \E want \in {KxpW(bits[Ev.id], obj[Ev.id].lgk)} :
           KxpClose([i \in 1..5 |-> Ev.kxp[i]], want, obj[Ev.id].lgk)
  /\ On("C12") => ImgOK(obj[Ev.id], Ev)
  /\ (On("C12") /\ "sel" \in DOMAIN Ev) => SelOK(obj[Ev.id], Ev)
  /\ On("C18") => Ev.len <= Ev.maxlen \/ Ev.over     \* counted by the driver, see C18
  /\ UNCHANGED <<obj, bits, uni, ubits>>

\* deserialize(serialize(s)): same window, table, offset, first interesting column, coupon count and
\* HIP flag; same estimate and bounds bit for bit; CpcWrapper agrees with full deserialization
TrRT ==
  /\ IsEv("PRT")
  /\ obj' = Put(obj, Ev.to, obj[Ev.id])
  /\ bits' = Put(bits, Ev.to, bits[Ev.id])
  \* CpcWrapper (reads estimate and bounds straight from the image): nested, and the same advertised spread
  /\ On("C01") => (/\ NonDecreasing(Ev.wb)
                   /\ CpcRelOK(obj[Ev.id], [big |-> Ev.o.big, rel |-> Ev.wrel]))
  /\ On("C11") => (/\ FullOK(obj[Ev.id], Ev) /\ Ev.tok[1] = Ev.tok[2] /\ Ev.tok[1] = Ev.tok[3]
                   /\ Ev.same /\ Ev.wrap_lgk = obj[Ev.id].lgk /\ Ev.wrap_emp = (obj[Ev.id].c = 0))
  /\ UNCHANGED <<uni, ubits>>

\* a sketch and its decoded copy after the same further updates: bit-identical estimate, bounds and image
TrCmp ==
  /\ IsEv("PCmp")
  /\ On("C11") => (Ev.same /\ obj[Ev.a] = obj[Ev.b])
  /\ UNCHANGED <<obj, bits, uni, ubits>>

TrUNew ==
  /\ IsEv("PUNew")
  /\ uni' = Put(uni, Ev.id, NewUnion(Ev.lgk))
  /\ ubits' = Put(ubits, Ev.id, [lgk |-> Ev.lgk, m |-> [i \in 0..(P2(Ev.lgk) - 1) |-> {}]])
  /\ UNCHANGED <<obj, bits>>

TrUUpd ==
  /\ IsEv("PUUpd")
  /\ uni' = [uni EXCEPT ![Ev.id] = UnionUpdate(@, obj[Ev.src])]
  /\ ubits' = [ubits EXCEPT ![Ev.id] =
                 IF obj[Ev.src].c = 0 THEN @
                 ELSE LET nl == IF obj[Ev.src].lgk < @.lgk THEN obj[Ev.src].lgk ELSE @.lgk IN
                      [lgk |-> nl, m |-> OrInto(Fold(@.m, @.lgk, nl), nl, bits[Ev.src], obj[Ev.src].lgk)]]
  /\ LET u == uni'[Ev.id]  g == ubits'[Ev.id] IN
     On("C06") => /\ Ev.st.lgk = u.lgk /\ Ev.st.ismat = u.isMat
                  /\ u.lgk = g.lgk
                  /\ UnionMatrix(u) = g.m
                  /\ Ev.st.c = CountBits(g.m)
  /\ UNCHANGED <<obj, bits>>

\* to_sketch: the result represents the OR of the inputs folded to the smallest lgK, is internally
\* consistent and marked as merged
TrUToSk ==
  /\ IsEv("PUToSk")
  /\ obj' = Put(obj, Ev.to, ToSketch(uni[Ev.id]))
  /\ bits' = Put(bits, Ev.to, ubits[Ev.id].m)
  /\ LET r == obj'[Ev.to] IN
     /\ On("C06") => /\ FullOK(r, Ev) /\ Matrix(r) = ubits[Ev.id].m /\ r.lgk = ubits[Ev.id].lgk
                     /\ Ev.lgk = r.lgk /\ r.merged
     /\ ObsOK(r, Ev.o)
  /\ UNCHANGED <<uni, ubits>>

TrPanic == IsEv("Panic") /\ FALSE /\ UNCHANGED <<obj, bits, uni, ubits>>

TNext == TrCmp \/ TrRun \/ TrNew \/ TrUpd \/ TrChk \/ TrRT \/ TrUNew \/ TrUUpd \/ TrUToSk \/ TrPanic
TSpec == TInit /\ [][TNext]_tvars

Accepted ==
  LET d == TLCGet("stats").diameter IN
  IF d - 1 = Len(Rec) THEN TRUE
  ELSE Print(<<"UNMATCHED", d, Rec[d]>>, FALSE)
===============================================================================
