------------------------------- MODULE MC_Hll -------------------------------
(* Exhaustive instance: three sketches (Hll4, Hll6, Hll8) fed the same coupons *)
(* in lock-step, every order and multiplicity over a small alphabet, with     *)
(* serialize/deserialize round trips at arbitrary points.                     *)
EXTENDS Hll

CONSTANTS LgK, Alphabet

AlphaA == { <<0,1>>, <<0,2>>, <<0,4>>, <<0,5>>, <<0,6>>,
            <<1,1>>, <<1,2>>, <<1,3>>, <<1,5>>,
            <<2,1>>, <<2,2>>, <<2,3>>, <<2,6>>,
            <<3,1>>, <<3,2>>, <<3,4>>,
            <<4,3>>, <<7,2>>, <<7,6>> }
AlphaB == { <<1,1>>, <<5,1>>, <<9,2>>, <<17,1>>, <<33,3>>, <<1,2>>,
            <<2,1>>, <<6,4>>, <<21,1>> }

VARIABLES s4, s6, s8,   \* the three sketches
          offered       \* ghost: coupons offered so far (reduced once in array mode)

vars == <<s4, s6, s8, offered>>

\* Once all three sketches are register arrays only the per-register maximum of the
\* history matters; reducing the ghost keeps the state space finite and small.
Reduce(off, a, b, c) ==
  IF a.mode = "arr" /\ b.mode = "arr" /\ c.mode = "arr"
  THEN LET k == Pow2(LgK) IN
       {<<s, A_Reg(off, k, s)>> : s \in {t \in 0..(k - 1) : A_Reg(off, k, t) > 0}}
  ELSE off

Init == /\ s4 = NewSketch(LgK, 4) /\ s6 = NewSketch(LgK, 6) /\ s8 = NewSketch(LgK, 8)
        /\ offered = {}

Offer(c) ==
  LET a == Update(s4, c)  b == Update(s6, c)  d == Update(s8, c) IN
  /\ s4' = a /\ s6' = b /\ s8' = d
  /\ offered' = Reduce(offered \cup {c}, a, b, d)

RT == /\ s4' = RoundTrip(s4) /\ s6' = RoundTrip(s6) /\ s8' = RoundTrip(s8)
      /\ UNCHANGED offered

Next == (\E c \in Alphabet : Offer(c)) \/ RT
Spec == Init /\ [][Next]_vars

(* ---- invariants --------------------------------------------------------- *)
AllShapes(st) == Hll4Shape(st) /\ Arr68Shape(st) /\ SetShape(st) /\ ListShape(st)

RefinesAll == Refines(s4, offered) /\ Refines(s6, offered) /\ Refines(s8, offered)
ShapesAll  == AllShapes(s4) /\ AllShapes(s6) /\ AllShapes(s8)

\* C02: the three target types hold the same abstract state (hence the same estimator
\* inputs: same registers, same zero/at-min counts, same flags)
TypeFree ==
  /\ s4.mode = s6.mode /\ s6.mode = s8.mode
  /\ (s4.mode # "arr" => s4.list = s6.list /\ s6.list = s8.list
                         /\ s4.tab = s6.tab /\ s6.tab = s8.tab)
  /\ (s4.mode = "arr" => Regs(s4) = Regs(s6) /\ Regs(s6) = Regs(s8)
                         /\ s4.ooo = s6.ooo /\ s6.ooo = s8.ooo
                         /\ s4.hipPos = s6.hipPos /\ s6.hipPos = s8.hipPos)

\* C18 (HLL clause): the image size is a function of mode, lgK and the exception count
SizeOK ==
  /\ (s8.mode = "list" => SerLen(s8) <= 8 + 4 * ListCap)
  /\ (s8.mode = "set" => SerLen(s8) <= 12 + 3 * Pow2(LgK - SetLgOff))
  /\ SerLen(s4) <= 40 + Pow2(LgK) \div 2 + 4 * Pow2(LgK)

\* a non-empty in-order sketch has a positive HIP accumulator
HipOK == \A st \in {s4, s6, s8} : (st.mode = "arr" /\ ~IsEmpty(st) /\ ~st.ooo) => st.hipPos

Inv == RefinesAll /\ ShapesAll /\ TypeFree /\ SizeOK /\ HipOK

\* list -> set -> array only; the table only grows
ModeMonotone ==
  [][/\ ModeRank(s4'.mode) >= ModeRank(s4.mode)
     /\ (s4.mode = "set" /\ s4'.mode = "set" => s4'.setLg >= s4.setLg)
     /\ (s4.mode = "arr" => s4'.curMin >= s4.curMin)]_vars
===============================================================================
