CONSTANTS ListCap = 8  InitSetLg = 5  SetLgOff = 3  AuxToken = 15  MaxVal = 63
          LgK = 4  Prefix <- P4b  Alphabet <- A4b  Depth = 7
SPECIFICATION GSpec
INVARIANT GInv
VIEW View
CHECK_DEADLOCK FALSE
