CONSTANTS Check = {"C10", "C11", "C12", "C13", "C15"}
SPECIFICATION TSpec
POSTCONDITION Accepted
CHECK_DEADLOCK FALSE
