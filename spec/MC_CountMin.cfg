CONSTANTS MaxOps = 6  Weights = {0, 1, 2}
SPECIFICATION Spec
INVARIANT Inv
CHECK_DEADLOCK FALSE
