CONSTANTS M = 4  MaxN = 3  WS = {1, 2, 3, 5}  EmitHeavy = TRUE
SPECIFICATION Spec
INVARIANT GInv
CHECK_DEADLOCK FALSE
