---------------------------- MODULE Gen_Mutations ----------------------------
(* Generator of structure-aware corruptions of a binary image (C14).  A        *)
(* mutation script is one of                                                   *)
(*   [k |-> "u8",  off, v]   overwrite one byte with a boundary value          *)
(*   [k |-> "u16", off, v] / "u32" / "u64"  overwrite an aligned field (LE)    *)
(*   [k |-> "flip", off, bit]               flip one preamble bit              *)
(*   [k |-> "trunc", len]                   keep only the first len bytes      *)
(*   [k |-> "ext", n]                       append n bytes                     *)
(*   [k |-> "pay", stride]                  flip a byte every stride bytes     *)
(* and TLC also emits every PAIR of field overwrites among the first           *)
(* PairBytes bytes (two cooperating corrupted fields).  One REPLAY line each.  *)
EXTENDS Integers, Sequences, FiniteSets, TLC, Json

CONSTANTS PreBytes,    \* how many leading bytes are treated as preamble / header fields
          PairBytes,   \* pairs of byte overwrites are generated within this prefix
          MaxTrunc,    \* truncation lengths 0..MaxTrunc
          MaxField     \* value fields (8-byte / 4-byte) are overwritten up to this offset

B8 == {0, 1, 2, 3, 4, 5, 7, 8, 10, 15, 16, 20, 21, 22, 26, 27, 31, 32, 33, 63, 64, 65, 127, 128, 129, 200, 254, 255}
PairVals == {0, 1, 4, 26, 64, 255}
\* 32/64-bit boundary values are named; the harness maps the names to the bit patterns
B32 == {"0", "1", "2p7", "2p8m1", "2p15", "2p16m1", "2p16", "2p24", "2p31m1", "2p31", "2p32m1"}
B64 == {"0", "1", "2p32", "2p53", "2p63m1", "2p63", "2p64m1", "nan", "inf", "ninf", "tiny"}

Scripts ==
     {[k |-> "u8", off |-> o, v |-> v] : o \in 0..(PreBytes - 1), v \in B8}
  \cup {[k |-> "u16", off |-> o, v |-> v] : o \in {x \in 0..(PreBytes - 2) : x % 2 = 0}, v \in {"0", "1", "2p15", "2p16m1"}}
  \cup {[k |-> "u32", off |-> o, v |-> v] : o \in {x \in 0..(PreBytes - 4) : x % 4 = 0}, v \in B32}
  \cup {[k |-> "u64", off |-> o, v |-> v] : o \in {x \in 0..(PreBytes - 8) : x % 8 = 0}, v \in B64}
  \* value fields behind the preamble (means, weights, buffered values, counters, hashes): non-finite
  \* and extreme bit patterns at every aligned offset
  \cup {[k |-> "u64", off |-> o, v |-> v] : o \in {x \in PreBytes..(MaxField - 8) : x % 8 = 0},
                                           v \in {"nan", "inf", "ninf", "2p64m1", "0", "2p63"}}
  \cup {[k |-> "u32", off |-> o, v |-> v] : o \in {x \in 8..(MaxField - 4) : x % 4 = 0}, v \in {"nan32", "inf32", "2p32m1"}}
  \cup {[k |-> "flip", off |-> o, bit |-> b] : o \in 0..(PreBytes - 1), b \in 0..7}
  \cup {[k |-> "trunc", len |-> n] : n \in 0..MaxTrunc}
  \cup {[k |-> "ext", n |-> n] : n \in 1..16}
  \cup {[k |-> "pay", stride |-> s] : s \in {1, 3, 7, 16, 61}}
  \cup {[k |-> "pair", o1 |-> a, v1 |-> x, o2 |-> b, v2 |-> y] :
          a \in 0..(PairBytes - 1), b \in 0..(PairBytes - 1), x \in PairVals, y \in PairVals}

VARIABLE done
Init == done = FALSE
Next == ~done /\ done' = TRUE
Spec == Init /\ [][Next]_done

\* every script is well-formed for an image of at least PreBytes bytes
WellFormed == \A s \in Scripts : /\ ((s.k \in {"u8", "u16", "flip"}) => (s.off < PreBytes))
                                  /\ ((s.k \in {"u32", "u64"}) => (s.off < MaxField))
Emit == done => \A s \in Scripts : (s.k = "pair" /\ s.o1 >= s.o2) \/ PrintT(<<"REPLAY", ToJson(s)>>)
Inv == WellFormed /\ Emit
===============================================================================
