CONSTANTS MinLg = 5  StrideBits = 7  LgNom = 5  Rf = 3  Prefix <- P58  Alphabet <- A58  Depth = 4
SPECIFICATION GSpec
INVARIANT GInv
VIEW View
CHECK_DEADLOCK FALSE
