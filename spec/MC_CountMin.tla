----------------------------- MODULE MC_CountMin -----------------------------
(* Exhaustive toy instance: two 2 x 3 sketches, four items with fixed buckets  *)
(* (two collide in one row, two in the other), weights 0..2, every sequence of *)
(* update / merge / halve / decay(1/2, 2/3).                                   *)
EXTENDS CountMin

CONSTANTS MaxOps, Weights

Items == {1, 2, 3, 4}
Bk == (1 :> <<0, 1>>) @@ (2 :> <<0, 2>>) @@ (3 :> <<1, 2>>) @@ (4 :> <<2, 0>>)

VARIABLES a, b, ta, tb, ops, scaled
vars == <<a, b, ta, tb, ops, scaled>>
Zero == [x \in Items |-> 0]

Init == a = NewCM(2, 3) /\ b = NewCM(2, 3) /\ ta = Zero /\ tb = Zero /\ ops = 0 /\ scaled = FALSE

UpdA(x, w) == a' = Update(a, Bk[x], w) /\ ta' = [ta EXCEPT ![x] = @ + w] /\ UNCHANGED <<b, tb, scaled>>
UpdB(x, w) == b' = Update(b, Bk[x], w) /\ tb' = [tb EXCEPT ![x] = @ + w] /\ UNCHANGED <<a, ta, scaled>>
MergeBA == a' = Merge(a, b) /\ ta' = [x \in Items |-> ta[x] + tb[x]] /\ UNCHANGED <<b, tb, scaled>>
HalveA == a' = Halve(a) /\ ta' = [x \in Items |-> ta[x] \div 2] /\ scaled' = TRUE /\ UNCHANGED <<b, tb>>
DecayA(n, d) == a' = Decay(a, n, d) /\ ta' = [x \in Items |-> Scale(ta[x], n, d)] /\ scaled' = TRUE /\ UNCHANGED <<b, tb>>

Next == /\ ops < MaxOps /\ ops' = ops + 1
        /\ \/ \E x \in Items, w \in Weights : UpdA(x, w) \/ UpdB(x, w)
           \/ MergeBA \/ HalveA \/ DecayA(1, 2) \/ DecayA(2, 3)

Spec == Init /\ [][Next]_vars

Sum4(t) == t[1] + t[2] + t[3] + t[4]

Inv == /\ OneSided(a, ta, Bk, Items) /\ OneSided(b, tb, Bk, Items)
       \* while no halve/decay happened the table is exactly the sum of hashed weights
       /\ (~scaled => a.tab = A_Table(a, ta, Bk, Items) /\ a.total = Sum4(ta))
       /\ b.tab = A_Table(b, tb, Bk, Items) /\ b.total = Sum4(tb)
===============================================================================
