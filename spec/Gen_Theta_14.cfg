CONSTANTS MinLg = 5  StrideBits = 7  LgNom = 5  Rf = 1  Prefix <- P14  Alphabet <- A14  Depth = 4
SPECIFICATION GSpec
INVARIANT GInv
VIEW View
CHECK_DEADLOCK FALSE
