CONSTANTS Check = {"C08", "C11", "C18", "C12"}
SPECIFICATION TSpec
POSTCONDITION Accepted
CHECK_DEADLOCK FALSE
