------------------------------- MODULE MC_Wide -------------------------------
(* The limb operators of Wide.tla against ordinary integers, exhaustively for  *)
(* base 4 and 3 limbs (all 64 x 64 pairs).                                      *)
EXTENDS Wide, TLC

Val(a) == a[1] + B * a[2] + B * B * a[3]

VARIABLE done
Init == done = FALSE
Next == done' = TRUE
Spec == Init /\ [][Next]_done

AddOK == \A a \in Limbs : \A b \in Limbs :
           /\ WAddFits(a, b) = (Val(a) + Val(b) < B * B * B)
           /\ (WAddFits(a, b) => Val(WAdd(a, b)) = Val(a) + Val(b))
HalfOK == \A a \in Limbs : Val(WHalf(a)) = Val(a) \div 2
LeqOK == \A a \in Limbs : \A b \in Limbs : WLeq(a, b) = (Val(a) <= Val(b))
OfOK == \A x \in 0..(B * B * B - 1) : Val(WOf(x)) = x /\ WOf(x) \in Limbs
MinOK == \A a \in Limbs : \A b \in Limbs : Val(WMin({a, b})) = (IF Val(a) <= Val(b) THEN Val(a) ELSE Val(b))
SumOK == \A a \in Limbs : \A b \in Limbs :
           (Val(a) + Val(b) + 1 < B * B * B) => Val(WSum(<<a, b, WOf(1)>>)) = Val(a) + Val(b) + 1

ShlOK == \A a \in Limbs : \A sh \in 0..6 : Val(WShl(a, sh)) = (Val(a) * (2 ^ sh)) % (B * B * B)
MulOK == \A a \in Limbs : \A m \in 0..2 : Val(WMulSmall(a, m)) = (Val(a) * m) % (B * B * B)
SmallOK == \A x \in 0..(B * B - 1) : Val(WOfSmall(x)) = x

SubOK == \A a \in Limbs : \A b \in Limbs : (Val(b) <= Val(a)) => Val(WSub(a, b)) = Val(a) - Val(b)

Inv == SubOK /\ ShlOK /\ MulOK /\ SmallOK /\ AddOK /\ HalfOK /\ LeqOK /\ OfOK /\ MinOK /\ SumOK
===============================================================================
