------------------------------- MODULE MC_Bloom -------------------------------
(* Exhaustive toy instance: two 6-bit filters, 2 hash positions, five items    *)
(* (one a false positive of two others), every sequence of insert /            *)
(* contains_and_insert / union / intersect / invert / reset.                   *)
EXTENDS Bloom

CONSTANTS MaxOps
Items == { <<0, 1>>, <<1, 2>>, <<0, 2>>, <<3, 5>>, <<4, 4>> }

VARIABLES a, b, ia, ib, pure, ops   \* ia/ib: items known to be in a/b; pure: a saw only inserts and unions
vars == <<a, b, ia, ib, pure, ops>>

Init == a = NewBF(6, 2) /\ b = NewBF(6, 2) /\ ia = {} /\ ib = {} /\ pure = TRUE /\ ops = 0

InsA(p) == a' = Insert(a, p) /\ ia' = ia \cup {p} /\ UNCHANGED <<b, ib, pure>>
InsB(p) == b' = Insert(b, p) /\ ib' = ib \cup {p} /\ UNCHANGED <<a, ia, pure>>
UnionA == a' = Union(a, b) /\ ia' = ia \cup ib /\ UNCHANGED <<b, ib, pure>>
InterA == a' = Intersect(a, b) /\ ia' = ia \cap ib /\ pure' = FALSE /\ UNCHANGED <<b, ib>>
InvertA == a' = Invert(a) /\ ia' = {} /\ pure' = FALSE /\ UNCHANGED <<b, ib>>
ResetA == a' = Reset(a) /\ ia' = {} /\ pure' = TRUE /\ UNCHANGED <<b, ib>>

Next == /\ ops < MaxOps /\ ops' = ops + 1
        /\ \/ \E p \in Items : InsA(p) \/ InsB(p)
           \/ UnionA \/ InterA \/ InvertA \/ ResetA

Spec == Init /\ [][Next]_vars

Inv == /\ CountOK(a) /\ CountOK(b)
       /\ NoFalseNeg(a, ia) /\ NoFalseNeg(b, ib)
       /\ (pure => a.bits = A_Bits(ia))
       /\ b.bits = A_Bits(ib)
===============================================================================
