CONSTANTS MinLg = 3  MaxSample = 1024  LgMax = 3  Depth = 3  Weights = {1, 2}
SPECIFICATION GSpec
INVARIANT GInv
VIEW View
CHECK_DEADLOCK FALSE
