CONSTANTS B = 16  MaxLen = 12  MaxChunk = 12
SPECIFICATION GSpec
INVARIANT GInv
CHECK_DEADLOCK FALSE
