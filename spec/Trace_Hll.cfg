CONSTANTS ListCap = 8  InitSetLg = 5  SetLgOff = 3  AuxToken = 15  MaxVal = 63
          Check = {"C01", "C02", "C03", "C11", "C12", "C13", "C18"}
SPECIFICATION TSpec
POSTCONDITION Accepted
CHECK_DEADLOCK FALSE
