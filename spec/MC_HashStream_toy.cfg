CONSTANTS B = 4  MaxLen = 14  MaxChunk = 14
SPECIFICATION Spec
INVARIANT Inv
CHECK_DEADLOCK FALSE
