----------------------------- MODULE Trace_Theta -----------------------------
(* Trace validation for ThetaSketch / CompactThetaSketch.                      *)
EXTENDS ThetaFormat, Json, IOUtils

CONSTANT Check

Rec == ndJsonDeserialize(IOEnv.TRACE)

VARIABLES l, obj, cmp
tvars == <<l, obj, cmp>>

Ev == Rec[l]
IsEv(op) == l <= Len(Rec) /\ Ev.op = op /\ l' = l + 1
On(p) == p \in Check
Put(f, i, v) == (i :> v) @@ f

Hh(x) == <<x[1], x[2]>>
TabOf(seq) == [p \in 0..(Len(seq) - 1) |-> Hh(seq[p + 1])]
ToSeq0(f) == [i \in 1..Cardinality(DOMAIN f) |-> f[i - 1]]

NonDecreasing(s) == \A i \in 1..(Len(s) - 1) : s[i] <= s[i + 1]

\* scalars logged after every call
Sc(st) == [n |-> st.n, th |-> st.theta, lg |-> st.lgCur, emp |-> st.empty]

\* observations: order-projected bounds (C01), integral estimate in exact mode (C01/C04),
\* retained count within the configured bound (C18)
\* C01 (advertised spread): with n entries retained below theta the estimate n/theta has relative
\* standard deviation sqrt((1 - theta)/n). The binomial one-sigma bounds approach it from above as the
\* expected number m = n (1 - theta) / theta of screened-out items grows (the excess is about 1/sqrt m:
\* 16% at m = 38, 27% at m = 15); compared only for m >= 300, on squares, in 10^-5 units:
\* (1 - theta)/n * 10^10 is v.
ThetaRelOK(n, o) ==
  LET v == (((100000 - o.th5) * 1000) \div (IF n = 0 THEN 1 ELSE n)) * 100 IN
  (n >= 400 /\ v >= 10000 /\ o.rel5[1] >= 0 /\ n * ((100000 - o.th5) \div 100) >= 3 * o.th5) =>
     \A i \in 1..2 : /\ o.rel5[i] * o.rel5[i] >= (7 * v) \div 10
                       /\ o.rel5[i] * o.rel5[i] <= (14 * v) \div 10

ObsOK(n, theta, mx, empty, lgNom, o) ==
  /\ On("C01") => ThetaRelOK(n, o)
  /\ On("C01") => NonDecreasing(o.b)
  /\ (On("C01") \/ On("C04")) => (theta = mx => o.estn = n)
  /\ (On("C01") \/ On("C04")) => o.estm = (theta < mx)   \* exact mode is claimed exactly when nothing was screened
  /\ On("C01") => (~empty /\ theta < mx => o.ubpos)        \* screened-out sampling sketch: ub > 0
  /\ On("C04") => (o.emp = empty /\ o.n = n /\ o.est0 = (empty \/ n = 0))
  /\ On("C18") => o.n <= (15 * P2(lgNom + 1)) \div 16

TInit == l = 1 /\ obj = <<>> /\ cmp = <<>>
TrRun == IsEv("Run") /\ obj' = <<>> /\ cmp' = <<>>

TrNew ==
  /\ IsEv("TNew")
  /\ obj' = Put(obj, Ev.id, NewTheta(Ev.lgk, Ev.rf, Ev.th0, Ev.mx))
  /\ UNCHANGED cmp

\* a step that rebuilds must come with the table the code produced; any layout that holds
\* exactly the k smallest entries, each reachable by its probe sequence, is accepted
Lay == IF "tab" \in DOMAIN Ev THEN TabOf(Ev.tab) ELSE <<>>

TrOffer ==
  /\ IsEv("TOff")
  /\ OfferLayoutOK(obj[Ev.id], Hh(Ev.h), Lay)
  /\ obj' = [obj EXCEPT ![Ev.id] = Offer(@, Hh(Ev.h), Lay)]
  /\ LET n == obj'[Ev.id] IN
     /\ On("C04") => Sc(n) = Ev.st
     /\ ObsOK(n.n, n.theta, n.mx, n.empty, n.lgNom, Ev.o)
  /\ UNCHANGED cmp

TrTrim ==
  /\ IsEv("TTrim")
  /\ TrimLayoutOK(obj[Ev.id], Lay)
  /\ obj' = [obj EXCEPT ![Ev.id] = Trim(@, Lay)]
  /\ LET n == obj'[Ev.id] IN
     /\ On("C04") => Sc(n) = Ev.st
     /\ On("C18") => n.n <= K(n)
     /\ ObsOK(n.n, n.theta, n.mx, n.empty, n.lgNom, Ev.o)
  /\ UNCHANGED cmp

TrReset ==
  /\ IsEv("TReset")
  /\ obj' = [obj EXCEPT ![Ev.id] = Reset(@)]
  /\ LET n == obj'[Ev.id] IN
     /\ On("C04") => Sc(n) = Ev.st
     /\ ObsOK(n.n, n.theta, n.mx, n.empty, n.lgNom, Ev.o)
  /\ UNCHANGED cmp

\* whole table
TrChk ==
  /\ IsEv("TChk")
  /\ On("C04") => (ToSeq0(obj[Ev.id].tab) = [i \in 1..Len(Ev.tab) |-> Hh(Ev.tab[i])]
                  /\ TableOK(obj[Ev.id]))
  /\ UNCHANGED <<obj, cmp>>

CSt(e) == [entries |-> [i \in 1..Len(e.entries) |-> Hh(e.entries[i])], theta |-> e.theta,
           empty |-> e.empty, ordered |-> e.ordered]

B(e) == [i \in 1..Len(e) |-> e[i]]
BB(e) == [i \in 1..Len(e) |-> B(e[i])]

\* C12: both images of a compact sketch are exactly the cross-language layout of its state
ImgOK(c, mx, e) ==
  LET est == c.theta < mx  eb == BB(e.eb) IN
  /\ BytesMatch(c, eb)
  /\ B(e.img3) = EncV3(c, est, eb, B(e.tb), B(e.sh))
  /\ B(e.img4) = (IF SuitableForV4(c, est) /\ Len(eb) <= 300 THEN EncV4(c, est, eb, B(e.tb), B(e.sh))
                  ELSE IF SuitableForV4(c, est) THEN B(e.img4)   \* large: checked by the reference packer (e.v4ref)
                  ELSE EncV3(c, est, eb, B(e.tb), B(e.sh)))
  /\ e.v4ref

\* C13: an image of serial version 1..4 built by the harness from the compact state abs
TrCLoad ==
  /\ IsEv("CLoad")
  /\ LET a == CSt(Ev.abs)  est == a.theta < Ev.mx  eb == BB(Ev.eb) IN
     /\ BytesMatch(a, eb)
     /\ B(Ev.img) = (CASE Ev.ver = 1 -> EncV1(a, eb, B(Ev.tb))
                       [] Ev.ver = 2 -> EncV2(a, est, eb, B(Ev.tb), B(Ev.sh))
                       [] Ev.ver = 3 -> EncV3(a, est, eb, B(Ev.tb), B(Ev.sh))
                       [] Ev.ver = 4 -> EncV4(a, est, eb, B(Ev.tb), B(Ev.sh)))
     /\ cmp' = Put(cmp, Ev.to, [c |-> a, mx |-> Ev.mx, lgNom |-> Ev.lgk])
     /\ On("C13") => (/\ Ev.ok
                      \* entries, theta, emptiness; v1/v2 images are always ordered
                      /\ CSt(Ev.c) = [a EXCEPT !.ordered = IF Ev.ver < 3 THEN TRUE ELSE @]
                      \* the decoded sketch belongs to the seed it was read with (serial version 1 has no field for it)
                      \* (an empty image keeps whatever its seed-hash field held: Java writes 0 there)
                      /\ (~a.empty => B(Ev.sho) = B(Ev.shx)))
     /\ (Ev.ok => ObsOK(Len(a.entries), a.theta, Ev.mx, a.empty, Ev.lgk, Ev.o))
  /\ UNCHANGED obj

TrCompact ==
  /\ IsEv("TCompact")
  /\ cmp' = Put(cmp, Ev.to, [c |-> Compact(obj[Ev.id], Ev.ord), mx |-> obj[Ev.id].mx,
                              lgNom |-> obj[Ev.id].lgNom])
  /\ LET c == cmp'[Ev.to].c IN
     /\ On("C04") => (c = CSt(Ev.c) /\ Ev.tok[1] = Ev.tok[2])
     /\ On("C12") => ImgOK(c, obj[Ev.id].mx, Ev)
     /\ ObsOK(Len(c.entries), c.theta, obj[Ev.id].mx, c.empty, obj[Ev.id].lgNom, Ev.o)
  /\ UNCHANGED obj

\* deserialize(serialize(compact)) in either form: the same compact state, the same
\* estimates and bounds bit for bit, the same bytes again
TrCRT ==
  /\ IsEv("CRT")
  /\ LET c == cmp[Ev.id] IN
     /\ cmp' = Put(cmp, Ev.to, c)
     /\ On("C11") => (c.c = CSt(Ev.c) /\ Ev.tok[1] = Ev.tok[2] /\ Ev.same)
     /\ ObsOK(Len(c.c.entries), c.c.theta, c.mx, c.c.empty, c.lgNom, Ev.o)
  /\ UNCHANGED obj

\* C13: a compressed image with a 3-byte entry count (compared with its entry list by the harness)
TrCLoadBig ==
  /\ IsEv("CLoadBig")
  /\ Ev.nbytes = (IF Ev.n < 256 THEN 1 ELSE IF Ev.n < 65536 THEN 2 ELSE IF Ev.n < 16777216 THEN 3 ELSE 4)
  /\ (On("C13") \/ On("C11")) => (Ev.ok /\ Ev.same /\ Ev.again)
  /\ UNCHANGED <<obj, cmp>>

TrPanic == IsEv("Panic") /\ FALSE /\ UNCHANGED <<obj, cmp>>

TNext == TrCLoadBig \/ TrRun \/ TrCLoad \/ TrNew \/ TrOffer \/ TrTrim \/ TrReset \/ TrChk \/ TrCompact \/ TrCRT \/ TrPanic
TSpec == TInit /\ [][TNext]_tvars

Accepted ==
  LET d == TLCGet("stats").diameter IN
  IF d - 1 = Len(Rec) THEN TRUE
  ELSE Print(<<"UNMATCHED", d, Rec[d]>>, FALSE)
===============================================================================
