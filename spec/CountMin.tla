------------------------------- MODULE CountMin -------------------------------
(* Count-Min sketch (countmin/sketch.rs): d rows of w counters.  The bucket of *)
(* an item in each row (MurmurHash3 with the row's derived seed, modulo w) is  *)
(* an argument of the update: b = <<bucket of row 1, ..., bucket of row d>>.   *)
EXTENDS Integers, Sequences, FiniteSets, TLC

NewCM(d, w) == [d |-> d, w |-> w, tab |-> [i \in 0..(d * w - 1) |-> 0], total |-> 0]

Idx(st, row, b) == (row - 1) * st.w + b[row]

\* update_with_weight (non-negative weight): one counter per row, plus the total
Update(st, b, wt) ==
  IF wt = 0 THEN st
  ELSE [st EXCEPT !.total = @ + wt,
                  !.tab = [i \in DOMAIN st.tab |->
                             IF \E r \in 1..st.d : Idx(st, r, b) = i THEN st.tab[i] + wt ELSE st.tab[i]]]

MinOf(S) == CHOOSE x \in S : \A y \in S : x <= y
Estimate(st, b) == MinOf({st.tab[Idx(st, r, b)] : r \in 1..st.d})

Compatible(a, c) == a.d = c.d /\ a.w = c.w
\* merge() accepts exactly the sketches of the same shape built with the same seed
MergeAccepts(d1, w1, seed1, d2, w2, seed2) == d1 = d2 /\ w1 = w2 /\ seed1 = seed2
Merge(a, c) == [a EXCEPT !.tab = [i \in DOMAIN a.tab |-> a.tab[i] + c.tab[i]], !.total = @ + c.total]

Halve(st) == [st EXCEPT !.tab = [i \in DOMAIN st.tab |-> st.tab[i] \div 2], !.total = @ \div 2]
\* decay by num/den (0 < num <= den): trunc(c * num / den) on every counter and on the total
Scale(c, num, den) == (c * num) \div den
Decay(st, num, den) == [st EXCEPT !.tab = [i \in DOMAIN st.tab |-> Scale(st.tab[i], num, den)],
                                  !.total = Scale(@, num, den)]

(* ---- the same operations on 64-bit quantities (counters and weights of the u64 / i64 instances ---- *)
(* ---- above TLC's 32-bit integers): four 16-bit limbs, least significant first (Wide.tla)      ---- *)
W == INSTANCE Wide WITH B <- 65536, N <- 4
NewCMW(d, w) == [d |-> d, w |-> w, tab |-> [i \in 0..(d * w - 1) |-> W!WZero], total |-> W!WZero]
UpdateW(st, b, wt) ==
  IF wt = W!WZero THEN st
  ELSE [st EXCEPT !.total = W!WAdd(@, wt),
                  !.tab = [i \in DOMAIN st.tab |->
                             IF \E r \in 1..st.d : Idx(st, r, b) = i THEN W!WAdd(st.tab[i], wt) ELSE st.tab[i]]]
EstimateW(st, b) == W!WMin({st.tab[Idx(st, r, b)] : r \in 1..st.d})
MergeW(a, c) == [a EXCEPT !.tab = [i \in DOMAIN a.tab |-> W!WAdd(a.tab[i], c.tab[i])], !.total = W!WAdd(@, c.total)]
HalveW(st) == [st EXCEPT !.tab = [i \in DOMAIN st.tab |-> W!WHalf(st.tab[i])], !.total = W!WHalf(@)]

\* decay on 64-bit quantities: v -> trunc(v as f64 * d) is given as a finite map F (set of <<v, F(v)>> pairs
\* covering every counter, the total and every exact weight); whatever the rounding of the f64 product,
\* F must be monotone for the one-sided guarantee to survive the scaling
WApply(F, v) == (CHOOSE p \in F : p[1] = v)[2]
WCovers(F, S) == \A v \in S : \E p \in F : p[1] = v
\* (not "F(v) <= v": above 2^53 the conversion to f64 may round up, so decay(1.0) can raise a counter by
\* a few units; that direction is harmless for the one-sided guarantee)
WMonotone(F) == \A p \in F : \A q \in F : W!WLeq(p[1], q[1]) => W!WLeq(p[2], q[2])
DecayW(st, F) == [st EXCEPT !.tab = [i \in DOMAIN st.tab |-> WApply(F, st.tab[i])], !.total = WApply(F, @)]

(* ---- C08 ----------------------------------------------------------------- *)
\* truth: [item -> true weight], bk: [item -> bucket tuple]
OneSided(st, truth, bk, items) ==
  \A x \in items : /\ Estimate(st, bk[x]) >= truth[x]
                   /\ Estimate(st, bk[x]) <= st.total

\* the table is exactly the sum of hashed weights
A_Table(st, truth, bk, items) ==
  [i \in DOMAIN st.tab |->
     LET S == {x \in items : \E r \in 1..st.d : Idx(st, r, bk[x]) = i}
         RECURSIVE Sum(_)
         Sum(T) == IF T = {} THEN 0 ELSE LET x == CHOOSE y \in T : TRUE IN truth[x] + Sum(T \ {x})
     IN Sum(S)]
===============================================================================
