------------------------------ MODULE HllFormat ------------------------------
(* Binary layout of HLL sketch images (cross-language DataSketches format,     *)
(* serial version 1, family 7), every variant Java/C++ emit:                   *)
(*   list  : compact (count coupons) | updatable (1 << lgArr ints)             *)
(*   set   : compact (sorted coupons) | updatable (the coupon table as it is)  *)
(*   array : Hll4 | Hll6 | Hll8 registers; out-of-order flag; Hll4 exceptions  *)
(*           as compact list (compact flag) or updatable exception table       *)
(* An image is a sequence of byte values.  The three f64 fields of an array    *)
(* image (hip, kxq0, kxq1) are passed in as 24 bytes.                          *)
EXTENDS HllUnion

LE(x, n) == [i \in 1..n |-> (x \div (256 ^ (i - 1))) % 256]
\* coupon = value << 26 | slot26, little-endian
CouponBytes(c) == <<c[1] % 256, (c[1] \div 256) % 256, (c[1] \div 65536) % 256, (c[1] \div 16777216) + 4 * c[2]>>
Flat(seqOfSeqs) == FoldLeft(LAMBDA acc, s : acc \o s, <<>>, seqOfSeqs)

ModeCode(st) == CASE st.mode = "list" -> 0 [] st.mode = "set" -> 1 [] st.mode = "arr" -> 2
TypeCode(st) == CASE st.type = 4 -> 0 [] st.type = 6 -> 1 [] st.type = 8 -> 2
ModeByte(st) == ModeCode(st) + 4 * TypeCode(st)

EMPTY_FLAG == 4
COMPACT_FLAG == 8
OOO_FLAG == 16

\* registers of an array image
RegBytes(st) ==
  LET k == KOf(st) IN
  CASE st.type = 8 -> [i \in 1..k |-> st.cells[i - 1]]
    [] st.type = 4 -> [i \in 1..(k \div 2) |-> st.cells[2 * (i - 1)] + 16 * st.cells[2 * (i - 1) + 1]]
    [] st.type = 6 -> \* slot s occupies bits 6s .. 6s+5 of a little-endian bit stream; 3k/4 + 1 bytes
         [j \in 1..((3 * k) \div 4 + 1) |->
            LET Bit(b) == IF b \div 6 >= k THEN 0 ELSE (st.cells[b \div 6] \div (2 ^ (b % 6))) % 2
                base == 8 * (j - 1) IN
            Bit(base) + 2 * Bit(base + 1) + 4 * Bit(base + 2) + 8 * Bit(base + 3)
            + 16 * Bit(base + 4) + 32 * Bit(base + 5) + 64 * Bit(base + 6) + 128 * Bit(base + 7)]

(* list image; compact: the coupons only; updatable: the whole 1 << lgArr container *)
EncList(st, compact, lgArr) ==
  LET n == Len(st.list)
      flags == (IF n = 0 THEN EMPTY_FLAG ELSE 0) + (IF compact THEN COMPACT_FLAG ELSE 0)
      body == Flat([i \in 1..n |-> CouponBytes(st.list[i])])
      pad == IF compact \/ n = 0 THEN <<>> ELSE [i \in 1..(4 * (Pow2(lgArr) - n)) |-> 0]
  IN <<2, 1, 7, st.lgk, lgArr, flags, n, ModeByte(st)>> \o body \o pad

(* set image; compact: count + coupons in ascending order of the packed value;            *)
(* updatable: count + the table slot by slot (0 = empty)                                  *)
EncSet(st, compact) ==
  LET hdr == <<3, 1, 7, st.lgk, st.setLg, IF compact THEN COMPACT_FLAG ELSE 0, 0, ModeByte(st)>> \o LE(st.cnt, 4) IN
  IF compact
  THEN hdr \o Flat([i \in 1..st.cnt |-> CouponBytes(SortCoupons(RangeOf(st.tab) \ {NoC})[i])])
  ELSE hdr \o Flat([i \in 1..Pow2(st.setLg) |-> CouponBytes(st.tab[i - 1])])

(* array image.  fb: the 24 bytes of hip, kxq0, kxq1.  Hll4 exceptions:                  *)
(*   compact  : auxOrder lists them in image order (any order of exactly st.aux)         *)
(*   updatable: auxTab is the exception table (sequence of 1 << lgAux pairs, NoC empty), *)
(*              byte 4 holds lgAux                                                       *)
EncArr(st, fb, compact, auxOrder, lgAux, auxTab) ==
  LET flags == (IF st.ooo THEN OOO_FLAG ELSE 0) + (IF compact THEN COMPACT_FLAG ELSE 0)
      auxN == Cardinality(st.aux)
      lgByte == IF st.type = 4 /\ ~compact /\ auxN > 0 THEN lgAux ELSE 0
      auxB == IF st.type # 4 \/ auxN = 0 THEN <<>>
              ELSE IF compact THEN Flat([i \in 1..Len(auxOrder) |-> CouponBytes(auxOrder[i])])
              ELSE Flat([i \in 1..Len(auxTab) |-> CouponBytes(auxTab[i])])
  IN <<10, 1, 7, st.lgk, lgByte, flags, st.curMin, ModeByte(st)>> \o fb \o LE(st.nacm, 4) \o LE(auxN, 4)
     \o RegBytes(st) \o auxB

\* exception table of Java/C++: probe = slot & mask, stride = (slot >> lgAux) | 1
AuxTabOK(st, lgAux, auxTab) ==
  /\ Len(auxTab) = Pow2(lgAux)
  /\ {auxTab[i] : i \in 1..Len(auxTab)} \ {NoC} = st.aux
  /\ Cardinality({i \in 1..Len(auxTab) : auxTab[i] # NoC}) = Cardinality(st.aux)

RECURSIVE Lg2(_)
Lg2(n) == IF n <= 1 THEN 0 ELSE 1 + Lg2(n \div 2)

\* the image this library writes: compact list / set; arrays with the exceptions as a compact list
EncOwn(st, fb, auxOrder) ==
  CASE st.mode = "list" -> EncList(st, TRUE, Lg2(st.listCap))
    [] st.mode = "set"  -> EncSet(st, TRUE)
    [] st.mode = "arr"  -> EncArr(st, fb, st.type = 4, auxOrder, 0, <<>>)
===============================================================================
