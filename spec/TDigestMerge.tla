---------------------------- MODULE TDigestMerge ----------------------------
(* Structure of TDigestMut::do_merge (tdigest/sketch.rs) for EVERY merge        *)
(* policy: the scale-function test that decides whether the next centroid is    *)
(* folded into the current one is an uninterpreted nondeterministic choice.     *)
(* A centroid is <<sum, weight>>: its mean is the exact rational sum / weight   *)
(* (Centroid::add computes the weighted mean of the two means).                 *)
EXTENDS Integers, Sequences, FiniteSets, TLC, SequencesExt

CONSTANTS Vals, MaxBuf, MaxN

VARIABLES cs,      \* centroids in ascending order of mean
          buf,     \* buffered values
          rev,     \* reverse_merge flag
          mn, mx,  \* tracked min / max (0 = none yet; values are >= 1)
          offered  \* ghost: sequence of all finite values offered

vars == <<cs, buf, rev, mn, mx, offered>>

Init == cs = <<>> /\ buf = <<>> /\ rev = FALSE /\ mn = 0 /\ mx = 0 /\ offered = <<>>

Min2(a, b) == IF a = 0 THEN b ELSE IF b < a THEN b ELSE a
Max2(a, b) == IF b > a THEN b ELSE a
MeanLe(a, b) == a[1] * b[2] <= b[1] * a[2]
MeanLt(a, b) == a[1] * b[2] < b[1] * a[2]

Update(v) ==
  /\ Len(offered) < MaxN /\ Len(buf) < MaxBuf
  /\ buf' = Append(buf, v) /\ mn' = Min2(mn, v) /\ mx' = Max2(mx, v)
  /\ offered' = Append(offered, v)
  /\ UNCHANGED <<cs, rev>>

\* sort_by mean (stable: buffered singletons come first in the input of the sort)
Sorted(items) == SortSeq(items, LAMBDA a, b : MeanLt(a, b))

\* choices[i]: whether item i (never the 2nd nor the last) is added to the current centroid
RECURSIVE Fold(_, _, _, _)
Fold(items, i, acc, choices) ==
  IF i > Len(items) THEN acc
  ELSE IF i # 2 /\ i # Len(items) /\ choices[i]
       THEN Fold(items, i + 1, [acc EXCEPT ![Len(acc)] = <<@[1] + items[i][1], @[2] + items[i][2]>>], choices)
       ELSE Fold(items, i + 1, Append(acc, items[i]), choices)

Compress ==
  /\ buf # <<>>
  /\ LET asc == Sorted([i \in 1..Len(buf) |-> <<buf[i], 1>>] \o cs)
         items == IF rev THEN Reverse(asc) ELSE asc
     IN \E choices \in [1..Len(items) -> BOOLEAN] :
          LET merged == Fold(items, 2, <<items[1]>>, choices)
          IN cs' = IF rev THEN Reverse(merged) ELSE merged
  /\ buf' = <<>> /\ rev' = ~rev
  /\ mn' = Min2(mn, cs'[1][1] \div cs'[1][2])
  /\ mx' = Max2(mx, cs'[Len(cs')][1] \div cs'[Len(cs')][2])
  /\ UNCHANGED offered

Next == (\E v \in Vals : Update(v)) \/ Compress
Spec == Init /\ [][Next]_vars

(* ---- C10 / C15 structural clauses ---------------------------------------- *)
RECURSIVE SumW(_)
SumW(s) == IF s = <<>> THEN 0 ELSE Head(s)[2] + SumW(Tail(s))
SeqMin(s) == CHOOSE x \in {s[i] : i \in 1..Len(s)} : \A i \in 1..Len(s) : x <= s[i]
SeqMax(s) == CHOOSE x \in {s[i] : i \in 1..Len(s)} : \A i \in 1..Len(s) : x >= s[i]

Inv ==
  /\ SumW(cs) + Len(buf) = Len(offered)                          \* total_weight = values offered
  /\ \A i \in 1..Len(cs) : cs[i][2] >= 1
  /\ \A i \in 1..(Len(cs) - 1) : MeanLe(cs[i], cs[i + 1])        \* means sorted
  /\ offered # <<>> => (mn = SeqMin(offered) /\ mx = SeqMax(offered))   \* exact extremes
  /\ \A i \in 1..Len(cs) : MeanLe(<<mn, 1>>, cs[i]) /\ MeanLe(cs[i], <<mx, 1>>)   \* inside [min, max]
  \* the first and last centroid of a compressed digest with >= 2 centroids are single samples
  /\ (Len(cs) >= 2 /\ buf = <<>>) => (cs[1][2] = 1 /\ cs[Len(cs)][2] = 1)
===============================================================================
