CONSTANTS PreBytes = 48  PairBytes = 12  MaxTrunc = 200  MaxField = 168
SPECIFICATION Spec
INVARIANT Inv
CHECK_DEADLOCK FALSE
