\* K = 16, list(2) -> table lg 2 -> table lg 3 -> array; slots chosen to collide in
\* the probe start (equal low bits) and in the stride
CONSTANTS ListCap = 2  InitSetLg = 2  SetLgOff = 1  AuxToken = 3  MaxVal = 6
          LgK = 4
          Alphabet <- AlphaB
SPECIFICATION Spec
INVARIANT Inv
PROPERTY ModeMonotone
CHECK_DEADLOCK FALSE
