CONSTANTS Vals = {1, 2, 4}  MaxBuf = 3  MaxN = 5
SPECIFICATION Spec
INVARIANT Inv
CHECK_DEADLOCK FALSE
