"""Shared machinery of bin/check: building the harness, running TLC in its three regimes
(MC = exhaustive model checking of a toy instance, Gen = behaviour generation,
Trace = validation of traces recorded from the real code), evidence and findings."""
import json, os, re, shutil, subprocess, sys, time, hashlib
from concurrent.futures import ThreadPoolExecutor

ROOT = os.path.dirname(os.path.dirname(os.path.abspath(__file__)))
SPEC = os.path.join(ROOT, "spec")
WORK = os.path.join(ROOT, "work")
HARNESS = os.path.join(ROOT, "harness")
REPLAYS = os.path.join(ROOT, "replays")
EVID = os.path.join(ROOT, "evidence")
KNOWN = os.path.join(ROOT, "known_findings.json")
JAR = "/opt/veriftools/tla/tla2tools.jar"


class ToolError(Exception):
    pass


def log(*a):
    print("[check]", *a, file=sys.stderr, flush=True)


def sh(cmd, cwd=None, env=None, timeout=None, check=True):
    e = dict(os.environ)
    if env:
        e.update(env)
    p = subprocess.run(cmd, cwd=cwd, env=e, timeout=timeout, stdout=subprocess.PIPE,
                       stderr=subprocess.STDOUT, text=True, errors="replace")
    if check and p.returncode != 0:
        raise ToolError("command failed (%d): %s\n%s" % (p.returncode, cmd, p.stdout[-4000:]))
    return p


# --------------------------------------------------------------------------- harness
def cargo_env():
    e = {"CARGO_NET_OFFLINE": "true"}
    return e


def build_harness(profile="release"):
    """Rebuild the harness; it has a path dependency on /repo/datasketches with the
    verif-hooks feature, so this always compiles /repo's current working tree."""
    t = time.time()
    if not os.path.exists(os.path.join(HARNESS, "Cargo.lock")):
        shutil.copy("/repo/Cargo.lock", os.path.join(HARNESS, "Cargo.lock"))
    args = ["cargo", "build", "--offline", "--bin", "vh"]
    args += ["--release"] if profile == "release" else ["--profile", profile]
    p = sh(args, cwd=HARNESS, env=cargo_env(), timeout=1800, check=False)
    if p.returncode != 0:
        raise ToolError("harness build failed:\n" + p.stdout[-6000:])
    log("built harness (%s) in %.1fs" % (profile, time.time() - t))
    return os.path.join(HARNESS, "target", profile, "vh")


def vh(binary, cmd, args, timeout=3600, env=None):
    """Run a harness sub-command; returns its last stdout line parsed as JSON."""
    a = [binary, cmd]
    for k, v in args.items():
        a += ["--" + k, str(v)]
    # the recorder's own watchdog (a library call that does not return is reported as a Panic event with
    # key "hang"): 5 minutes without an event in the quick tier, 15 in the thorough one
    env = dict(env or {})
    env.setdefault("VH_STALL", "900" if str(args.get("tier", "quick")) == "thorough" else "300")
    try:
        p = sh(a, timeout=timeout, check=False, env=env)
    except subprocess.TimeoutExpired:
        raise ToolError("harness %s did not finish within %d s" % (cmd, timeout))
    if p.returncode != 0:
        raise ToolError("harness %s failed (%d):\n%s" % (cmd, p.returncode, p.stdout[-4000:]))
    lines = [l for l in p.stdout.strip().splitlines() if l.startswith("{")]
    return json.loads(lines[-1]) if lines else {}


# --------------------------------------------------------------------------- TLC
STATES_RE = re.compile(r"(\d+) states generated, (\d+) distinct states found")


def run_tlc(module, cfg, workers=4, timeout=1800, tag=None, dfs=False, xmx=None, trace=None,
            simulate=None, extra=None):
    tag = tag or (module + "-" + os.path.basename(cfg))
    jopts = "-Xss1g"
    if dfs:
        jopts += " -XX:ParallelGCThreads=2 -Dtlc2.tool.queue.IStateQueue=StateDeque"
    if xmx:
        jopts += " -Xmx" + xmx
    meta = os.path.join(WORK, "meta-" + tag)
    shutil.rmtree(meta, ignore_errors=True)
    # TLC's scratch directories (java.io.tmpdir/tlc-*) go inside the metadir, which is removed below
    jtmp = os.path.join(WORK, "jtmp-" + tag)
    shutil.rmtree(jtmp, ignore_errors=True)
    os.makedirs(jtmp, exist_ok=True)
    jopts += " -Djava.io.tmpdir=" + jtmp
    env = {"JAVA_TOOL_OPTIONS": jopts}
    if trace:
        env["TRACE"] = trace
    # -checkpoint 0: the depth-first queue (StateDeque) cannot be checkpointed; TLC would abort after 30 min
    cmd = ["timeout", str(timeout), "tlc", "-workers", str(workers), "-metadir", meta,
           "-cleanup", "-noGenerateSpecTE", "-checkpoint", "0"]
    if simulate:
        cmd += ["-simulate", simulate]
    if extra:
        cmd += extra
    cmd += ["-config", cfg, module + ".tla"]
    t = time.time()
    p = sh(cmd, cwd=SPEC, env=env, check=False)
    shutil.rmtree(meta, ignore_errors=True)
    shutil.rmtree(jtmp, ignore_errors=True)
    out = p.stdout
    if p.returncode == 124:
        raise ToolError("TLC timeout after %ds: %s %s" % (timeout, module, cfg))
    m = STATES_RE.findall(out)
    gen, dist = (int(m[-1][0]), int(m[-1][1])) if m else (0, 0)
    return {"out": out, "rc": p.returncode, "generated": gen, "distinct": dist,
            "wall": time.time() - t}


def tlc_mc(module, cfg, workers=4, timeout=1800):
    """Exhaustive model checking of a toy instance. A failure here is a defect of the
    specification (or of the design), never of the code: it is a tool error, not a VIOLATION."""
    r = run_tlc(module, cfg, workers=workers, timeout=timeout)
    ok = "Model checking completed. No error has been found." in r["out"]
    if not ok:
        raise ToolError("specification %s/%s does not model-check:\n%s" % (module, cfg, r["out"][-5000:]))
    log("MC %s %s: %d generated, %d distinct, %.1fs" % (module, cfg, r["generated"], r["distinct"], r["wall"]))
    return {"module": module, "cfg": cfg, "states": r["distinct"], "transitions": r["generated"],
            "wall_s": round(r["wall"], 1)}


REPLAY_RE = re.compile(r'^<<"REPLAY", "(.*)">>$')


def tlc_gen(module, cfg, outfile, workers=1, timeout=1800, simulate=None, limit=None):
    """Behaviour generation: TLC prints one <<"REPLAY", json>> line per behaviour."""
    r = run_tlc(module, cfg, workers=workers, timeout=timeout, simulate=simulate)
    n = 0
    seen = set()
    with open(outfile, "w") as f:
        for line in r["out"].splitlines():
            m = REPLAY_RE.match(line.strip())
            if m:
                s = m.group(1).replace('\\"', '"').replace("\\\\", "\\")
                if s in seen:
                    continue
                seen.add(s)
                f.write(s + "\n")
                n += 1
                if limit and n >= limit:
                    break
    if n == 0:
        raise ToolError("generator %s/%s produced no behaviours:\n%s" % (module, cfg, r["out"][-3000:]))
    log("Gen %s %s: %d behaviours (%d states), %.1fs" % (module, cfg, n, r["distinct"], r["wall"]))
    return {"module": module, "cfg": cfg, "behaviours": n, "states": r["distinct"],
            "transitions": r["generated"], "wall_s": round(r["wall"], 1)}


UNMATCHED_RE = re.compile(r'<<\s*"UNMATCHED",\s*(\d+),')


def split_runs(path):
    """A trace file is a concatenation of runs, each starting with an event {"op":"Run",...}."""
    runs, cur = [], []
    with open(path) as f:
        for line in f:
            if not line.strip():
                continue
            if '"op":"Run"' in line and cur:
                runs.append(cur)
                cur = []
            cur.append(line)
    if cur:
        runs.append(cur)
    return runs


def validate_trace(module, cfg, path, tag, timeout=3600, xmx="4g"):
    """Validate one trace file; returns (events_accepted, [rejection...]). On a rejection the
    offending run is cut out, reported, and the rest of the file is validated again, so that a
    defect early in a file never leaves the remainder unexamined."""
    rejections = []
    accepted_events = 0
    states = 0
    rounds = 0
    cur = path
    while True:
        rounds += 1
        nlines = sum(1 for _ in open(cur))
        if nlines == 0:
            break
        r = run_tlc(module, cfg, workers=1, timeout=timeout, tag=tag, dfs=True, xmx=xmx, trace=cur)
        out = r["out"]
        states += r["distinct"]
        if "Model checking completed. No error has been found." in out:
            accepted_events += nlines
            break
        m = UNMATCHED_RE.search(out)
        if not m:
            raise ToolError("trace validation %s on %s failed without an UNMATCHED report:\n%s"
                            % (module, cur, out[-5000:]))
        idx = int(m.group(1))  # 1-based index of the first event no action explains
        runs = split_runs(cur)
        pos = 0
        bad = None
        for i, run in enumerate(runs):
            if pos < idx <= pos + len(run):
                bad = i
                break
            pos += len(run)
        if bad is None:
            raise ToolError("cannot locate rejected event %d in %s" % (idx, cur))
        run = runs[bad]
        off = idx - pos  # 1-based offset inside the run
        rejections.append({"run": run, "offset": off, "event": json.loads(run[off - 1]),
                           "header": json.loads(run[0])})
        accepted_events += pos
        rest = [l for r2 in runs[bad + 1:] for l in r2]
        if not rest or rounds > 200:
            break
        cur = path + ".rest%d" % rounds
        with open(cur, "w") as f:
            f.writelines(rest)
    return accepted_events, rejections, states


def validate_shards(module, cfg, paths, jobs=8, timeout=3600, xmx="4g"):
    t = time.time()
    with ThreadPoolExecutor(max_workers=jobs) as ex:
        futs = [ex.submit(validate_trace, module, cfg, p, "%s-%d" % (module, i), timeout, xmx)
                for i, p in enumerate(paths)]
        res = [f.result() for f in futs]
    ev = sum(r[0] for r in res)
    rej = [x for r in res for x in r[1]]
    st = sum(r[2] for r in res)
    log("Trace %s %s: %d events accepted, %d rejections, %.1fs" % (module, cfg, ev, len(rej), time.time() - t))
    return ev, rej, st


# --------------------------------------------------------------------------- findings / evidence
def load_known():
    if not os.path.exists(KNOWN):
        return {"findings": [], "fixed": []}
    return json.load(open(KNOWN))


def rejection_key(rej):
    """Identity of a trace rejection: scenario class of the run + the rejected operation
    (+ an explicit key the harness attached to the event, e.g. a panic location)."""
    h, e = rej["header"], rej["event"]
    k = "%s/%s" % (h.get("scn", "?"), e.get("op", "?"))
    if "key" in e:
        k += "/" + str(e["key"])
    return k


def write_replay(pid, n, rej, module, cfg):
    os.makedirs(REPLAYS, exist_ok=True)
    path = os.path.join(REPLAYS, "%s-%d.ndjson" % (pid, n))
    with open(path, "w") as f:
        f.writelines(rej["run"][: rej["offset"]])
    meta = {"property": pid, "trace_spec": module, "cfg": cfg, "rejected_event_index": rej["offset"],
            "rejected_event": rej["event"], "scenario": rej["header"],
            "how": "TRACE=%s tlc -config %s %s.tla (in /verif/spec); the last line is the first event "
                   "of the recorded execution that no action of the specification explains" % (path, cfg, module)}
    with open(path + ".meta.json", "w") as f:
        json.dump(meta, f, indent=1)
    return path


def finish(pid, tier, seed, level, coverage, t0, violations, assumptions, known_hits):
    """Write the evidence file and exit with the contract's status."""
    os.makedirs(EVID, exist_ok=True)
    ev = {"property_id": pid, "tier": tier, "seed": seed, "level": level, "coverage": coverage,
          "assumptions": assumptions, "wall_s": round(time.time() - t0, 1),
          "violations": len(violations), "known_findings_hit": sorted(set(known_hits))}
    with open(os.path.join(EVID, pid + ".json"), "w") as f:
        json.dump(ev, f, indent=1)
    for k in sorted(set(known_hits)):
        print("KNOWN-FINDING: property=%s %s" % (pid, k))
    for v in violations:
        print("VIOLATION property=%s replay=%s" % (pid, v))
    sys.stdout.flush()
    sys.exit(1 if violations else 0)


def classify(pid, rejections, module, cfg):
    """Split rejections into unlisted violations (replay files) and hits on listed findings."""
    known = {(k["property"], k["key"]): k for k in load_known().get("findings", [])}
    viol, hits = [], []
    seen = set()
    for rej in rejections:
        key = rejection_key(rej)
        if (pid, key) in known:
            hits.append("%s %s" % (key, known[(pid, key)].get("what", "")))
            continue
        if key in seen and len(viol) >= 5:
            continue
        seen.add(key)
        path = write_replay(pid, len(viol) + 1, rej, module, cfg)
        log("REJECTED %s at event %d: %s" % (key, rej["offset"], json.dumps(rej["event"])[:400]))
        viol.append(path)
    return viol, hits
