"""Per-property decision procedures (see DESIGN.md section 3)."""
import os, time, json
from vlib import *

TRACE_SPECS = {}


def work(pid, name):
    d = os.path.join(WORK, pid)
    os.makedirs(d, exist_ok=True)
    return os.path.join(d, name)


def clean(pid):
    shutil.rmtree(os.path.join(WORK, pid), ignore_errors=True)
    for f in os.listdir(REPLAYS) if os.path.isdir(REPLAYS) else []:
        if f.startswith(pid + "-"):
            os.remove(os.path.join(REPLAYS, f))


def sample_events(paths, n=3, maxlen=12):
    out = []
    for p in paths[:n]:
        runs = split_runs(p)
        if runs:
            r = runs[len(runs) // 2]
            out.append([json.loads(l) for l in r[:maxlen]])
    return out


def replay(pid, path):
    """Re-validate a replay file written by an earlier run."""
    meta = json.load(open(path + ".meta.json"))
    ev, rej, st = validate_shards(meta["trace_spec"], meta["cfg"], [path], jobs=1)
    if rej:
        print("VIOLATION property=%s replay=%s" % (pid, path))
        sys.exit(1)
    print("replay accepted: the recorded execution is explained by the specification")
    sys.exit(0)


# --------------------------------------------------------------------------- C16
def C16(tier, seed):
    t0 = time.time()
    clean("C16")
    thorough = tier == "thorough"
    vhbin = build_harness()
    mcs = [tlc_mc("MC_HashStream", c) for c in
           ["MC_HashStream_toy.cfg", "MC_HashStream_16.cfg", "MC_HashStream_32.cfg"]]
    beh = work("C16", "chunkings.json")
    gen = tlc_gen("Gen_HashStream", "Gen_HashStream.cfg", beh)
    shards = 12 if thorough else 6
    rec = vh(vhbin, "hash-record", {"in": beh, "out": work("C16", "hash"), "shards": shards,
                                    "seed": seed, "tier": tier})
    paths = [work("C16", "hash.%d.ndjson" % i) for i in range(shards)]
    ev, rej, st = validate_shards("Trace_HashStream", "Trace_HashStream.cfg", paths, jobs=shards)
    viol, hits = classify("C16", rej, "Trace_HashStream", "Trace_HashStream.cfg")
    cov = {"states": sum(m["states"] for m in mcs) + gen["states"] + st,
           "transitions": sum(m["transitions"] for m in mcs) + gen["transitions"] + ev,
           "traces_validated_against_impl": rec["runs"] - len(rej),
           "trace_events_validated": ev,
           "mc_instances": mcs, "generator": gen,
           "behaviours_replayed_into_impl": gen["behaviours"] * 2,
           "samples": sample_events(paths),
           "exhaustive": False,
           "rule": "MC: all (position, write length) pairs for B=4/16/32; Gen: all 2^(n-1) chunkings of "
                   "n<=12 bytes from TLC replayed into both hashers with random contents and seeds "
                   "{0,9001,u64::MAX,random}; random chunkings of every length 0..200; derived quantities"}
    finish("C16", tier, seed, "model_checking", cov, t0, viol,
           ["bit-exactness of the 64-bit mixing arithmetic is decided against harness/src/refhash.rs "
            "(one-shot transcription of the public reference algorithms, checked on published vectors), "
            "not against a TLA+ transcription (TLC integers are 32-bit)",
            "hook datasketches::verif::{murmur3_x64_128,xxhash64} calls the same Hasher::write/finish the sketches use"],
           hits)
