"""Per-property decision procedures (see DESIGN.md section 3)."""
import os, time, json
from vlib import *

TRACE_SPECS = {}


def work(pid, name):
    d = os.path.join(WORK, pid)
    os.makedirs(d, exist_ok=True)
    return os.path.join(d, name)


def clean(pid):
    shutil.rmtree(os.path.join(WORK, pid), ignore_errors=True)
    for f in os.listdir(REPLAYS) if os.path.isdir(REPLAYS) else []:
        if f.startswith(pid + "-"):
            os.remove(os.path.join(REPLAYS, f))


def sample_events(paths, n=3, maxlen=12):
    out = []
    for p in paths[:n]:
        runs = split_runs(p)
        if runs:
            r = runs[len(runs) // 2]
            out.append([json.loads(l) for l in r[:maxlen]])
    return out


def replay(pid, path):
    """Re-validate a replay file written by an earlier run."""
    meta = json.load(open(path + ".meta.json"))
    ev, rej, st = validate_shards(meta["trace_spec"], meta["cfg"], [path], jobs=1)
    if rej:
        print("VIOLATION property=%s replay=%s" % (pid, path))
        sys.exit(1)
    print("replay accepted: the recorded execution is explained by the specification")
    sys.exit(0)


# --------------------------------------------------------------------------- C16
def C16(tier, seed):
    t0 = time.time()
    clean("C16")
    thorough = tier == "thorough"
    vhbin = build_harness()
    mcs = [tlc_mc("MC_HashStream", c) for c in
           ["MC_HashStream_toy.cfg", "MC_HashStream_16.cfg", "MC_HashStream_32.cfg"]]
    beh = work("C16", "chunkings.json")
    gen = tlc_gen("Gen_HashStream", "Gen_HashStream.cfg", beh)
    shards = 12 if thorough else 6
    rec = vh(vhbin, "hash-record", {"in": beh, "out": work("C16", "hash"), "shards": shards,
                                    "seed": seed, "tier": tier})
    paths = [work("C16", "hash.%d.ndjson" % i) for i in range(shards)]
    ev, rej, st = validate_shards("Trace_HashStream", "Trace_HashStream.cfg", paths, jobs=shards)
    viol, hits = classify("C16", rej, "Trace_HashStream", "Trace_HashStream.cfg")
    cov = {"states": sum(m["states"] for m in mcs) + gen["states"] + st,
           "transitions": sum(m["transitions"] for m in mcs) + gen["transitions"] + ev,
           "traces_validated_against_impl": rec["runs"] - len(rej),
           "trace_events_validated": ev,
           "mc_instances": mcs, "generator": gen,
           "behaviours_replayed_into_impl": gen["behaviours"] * 2,
           "samples": sample_events(paths),
           "exhaustive": False,
           "rule": "MC: all (position, write length) pairs for B=4/16/32; Gen: all 2^(n-1) chunkings of "
                   "n<=12 bytes from TLC replayed into both hashers with random contents and seeds "
                   "{0,9001,u64::MAX,random}; random chunkings of every length 0..200; derived quantities"}
    finish("C16", tier, seed, "model_checking", cov, t0, viol,
           ["bit-exactness of the 64-bit mixing arithmetic is decided against harness/src/refhash.rs "
            "(one-shot transcription of the public reference algorithms, checked on published vectors), "
            "not against a TLA+ transcription (TLC integers are 32-bit)",
            "hook datasketches::verif::{murmur3_x64_128,xxhash64} calls the same Hasher::write/finish the sketches use"],
           hits)


# --------------------------------------------------------------------------- HLL family
HLL_CONSTS = "CONSTANTS ListCap = 8  InitSetLg = 5  SetLgOff = 3  AuxToken = 15  MaxVal = 63\n"


def trace_cfg(pid, family, consts, check):
    """Write the trace-validation config for one property: same specification, the
    conjuncts of the selected properties switched on."""
    path = work(pid, "Trace_%s_%s.cfg" % (family, pid))
    with open(path, "w") as f:
        f.write(consts)
        f.write("          Check = {%s}\n" % ", ".join('"%s"' % c for c in check))
        f.write("SPECIFICATION TSpec\nPOSTCONDITION Accepted\nCHECK_DEADLOCK FALSE\n")
    return path


def gen_many(pid, module, cfgs, outname):
    """Run several generator instances and concatenate their behaviours."""
    out = work(pid, outname)
    gens = []
    with open(out, "w") as o:
        for c in cfgs:
            part = work(pid, outname + "." + c)
            gens.append(tlc_gen(module, c, part))
            o.write(open(part).read())
    return out, gens


def hll_like(pid, tier, seed, check, record_cmd, mcs, gens, module="Trace_Hll", extra_args=None,
             assumptions=None, rule="", family="Hll", consts=None):
    t0 = time.time()
    clean(pid)
    thorough = tier == "thorough"
    vhbin = build_harness()
    mc = [tlc_mc(m, c, workers=6) for (m, c) in mcs]
    args = {"out": work(pid, "tr"), "seed": seed, "tier": tier}
    gen = []
    if gens:
        beh, gen = gen_many(pid, gens[0], gens[1], "behaviours.json")
        args["in"] = beh
    shards = 14 if thorough else 12
    args["shards"] = shards
    if extra_args:
        args.update(extra_args)
    rec = vh(vhbin, record_cmd, args)
    paths = [work(pid, "tr.%d.ndjson" % i) for i in range(shards)]
    cfg = trace_cfg(pid, family, (HLL_CONSTS if consts is None else consts), check)
    ev, rej, st = validate_shards(module, cfg, paths, jobs=shards)
    viol, hits = classify(pid, rej, module, cfg)
    cov = {"states": sum(m["states"] for m in mc) + sum(g["states"] for g in gen) + st,
           "transitions": sum(m["transitions"] for m in mc) + sum(g["transitions"] for g in gen) + ev,
           "traces_validated_against_impl": rec["runs"] - len(rej),
           "trace_events_validated": ev,
           "mc_instances": mc, "generators": gen,
           "behaviours_replayed_into_impl": sum(g["behaviours"] for g in gen),
           "samples": sample_events(paths, n=2, maxlen=6),
           "exhaustive": False, "rule": rule}
    finish(pid, tier, seed, "model_checking", cov, t0, viol, assumptions or [], hits)


def C02(tier, seed):
    hll_like("C02", tier, seed, ["C02"], "hll-record",
             [("MC_Hll", "MC_Hll_A.cfg"), ("MC_Hll", "MC_Hll_B.cfg")],
             ("Gen_Hll", ["Gen_Hll_4.cfg", "Gen_Hll_4b.cfg", "Gen_Hll_7.cfg", "Gen_Hll_8.cfg", "Gen_Hll_10.cfg"]),
             assumptions=["coupons of public update() calls are derived by harness/src/refhash.rs; state is read through the add-only hook HllSketch::verif_state()",
                          "estimates are compared as IEEE bit patterns across the Hll4/Hll6/Hll8 triplet, never predicted"],
             rule="MC: toy instances exhaustive (all orders/multiplicities over the alphabet, lock-step Hll4/6/8, round trips); "
                  "Gen: one TLC behaviour per distinct implementation-shaped state at real constants from scripted deep prefixes; "
                  "Trace: random public-API streams lg_k 4..12 x 3 types observed after every update, crafted coupon scripts "
                  "(exceptions, cur_min shifts with live aux map, probe collisions, promotions), full state at every representation change")


def C03(tier, seed):
    mc = ("MC_HllUnion", "MC_HllUnion_thorough.cfg" if tier == "thorough" else "MC_HllUnion.cfg")
    hll_like("C03", tier, seed, ["C03"], "hllu-record", [mc], None,
             assumptions=["input sketches are built through HllSketch::verif_update_with_coupon / update; gadget state is read through HllUnion::verif_gadget()",
                          "estimates/bounds of to_sketch(Hll4|Hll6|Hll8) and of the union itself are compared as IEEE bit patterns"],
             rule="MC: toy union over a 9-shape catalogue (+ harvested out-of-order results and their round trips), all sequences of "
                  "feed/update_value/reset/to_sketch; Trace: random union histories over catalogues of empty/list/set/array inputs x "
                  "Hll4/6/8 x lg_k 4..12 x fresh/deserialized/out-of-order, lg_max_k 4,7,8,10,12, permuted orders, repetition, "
                  "to_sketch for all three types after every step with full register comparison")


# --------------------------------------------------------------------------- Theta
THETA_CONSTS = "CONSTANTS MinLg = 5  StrideBits = 7\n"


def C04(tier, seed):
    hll_like("C04", tier, seed, ["C04"], "theta-record",
             [("MC_Theta", "MC_Theta.cfg"), ("MC_Theta", "MC_Theta_p.cfg")],
             ("Gen_Theta", ["Gen_Theta_58.cfg", "Gen_Theta_14.cfg"]),
             module="Trace_Theta", family="Theta", consts=THETA_CONSTS,
             assumptions=["63-bit hashes are order-projected (rank in the run + low 30 bits): every predicate the specification uses (<, =, table index, stride) is preserved",
                          "hashes of public update() calls are derived by harness/src/refhash.rs; the table is read through ThetaSketch::verif_table()",
                          "the layout after a rebuild is unspecified (select_nth_unstable): any layout holding exactly the k smallest entries, each reachable by its probe, is accepted and adopted"],
             rule="MC: toy tables exhaustive (offer/trim/reset over hash domain, sampling); Gen: one TLC behaviour per distinct table state "
                  "from a prefix at the rebuild threshold with index/stride-colliding and theta-adjacent hashes; Trace: random public streams "
                  "lg_k 5..12 x 4 resize factors x p in {1,.5,.1} x seeds, crafted collision families, theta-1/theta/theta+1, screened-out "
                  "sampling sketches, trim/reset/compact interleavings, full table at every resize/rebuild")


# --------------------------------------------------------------------------- Frequent items
FI_CONSTS = "CONSTANTS MinLg = 3  MaxSample = 1024\n"


def C07(tier, seed):
    hll_like("C07", tier, seed, ["C07"], "fi-record",
             [("MC_FreqItems", "MC_FreqItems_thorough.cfg" if tier == "thorough" else "MC_FreqItems.cfg")],
             ("Gen_FreqItems", ["Gen_FreqItems.cfg"]),
             module="Trace_FreqItems", family="FreqItems", consts=FI_CONSTS,
             assumptions=["item identity = index in the run's alphabet plus the low 20 bits of the reference hash (home slot for every map size)",
                          "the exact frequency of every item is a ghost of the trace specification, updated by the logged (item, weight) arguments",
                          "weights are kept below 2^31 in total (TLC integers)"],
             rule="MC: real minimum map (8 slots), 8 clustered items, weights {1,2}, every sequence of updates / catalogue merges (purged-to-empty, "
                  "survivor+offset, exact) / reset from a prefix next to the purge; Gen: one behaviour per distinct pair of map states (x, y) with "
                  "merges; Trace: uniform/skewed/all-distinct/bimodal weighted streams on maps 8..128 (2048 thorough) with clustered home slots, "
                  "purge-to-empty then merge/serialize, merge trees of 2..5 sketches of equal and different sizes with round trips; every item of "
                  "the alphabet is queried at every checkpoint")


# --------------------------------------------------------------------------- Count-Min
def C08(tier, seed):
    hll_like("C08", tier, seed, ["C08"], "cm-record", [("MC_CountMin", "MC_CountMin.cfg"), ("MC_Wide", "MC_Wide.cfg")], None,
             module="Trace_CountMin", family="CountMin", consts="CONSTANTS ",
             assumptions=["bucket indices are derived by harness/src/refhash.rs (per-row seed = murmur3(row as u64 LE, sketch seed).h1; bucket = h1 mod num_buckets)",
                          "the table is read from serialize() (16-byte preamble, total, then 8-byte little-endian counters)",
                          "decay factors are used only when trunc(c * f64(num/den)) = floor(c*num/den) for every reachable count (checked by the harness), "
                          "so the specification's rational semantics is the documented formula",
                          "the clause on the fraction of items above truth + relative_error*total (a probabilistic statement) is not decided"],
             rule="MC: two 2x3 sketches, 4 items with colliding buckets, weights 0..2, all update/merge/halve/decay(1/2,2/3) sequences; "
                  "Trace: num_hashes 1..8 x num_buckets 3..512 x seeds {9001,0,2^63+..,42} x all eight counter types (weights within range), "
                  "random update/merge/halve/decay/round-trip histories, whole table and every item's estimate at checkpoints, never-seen items too; "
                  "u64 / i64 counters with weights 2^53+1 .. 2^62 on four 16-bit limbs (Wide.tla, model-checked against integers for base 4): update, merge, halve; "
                  "merge offered other shapes and seeds (refused exactly then)")


# --------------------------------------------------------------------------- Bloom
def C09(tier, seed):
    hll_like("C09", tier, seed, ["C09"], "bloom-record", [("MC_Bloom", "MC_Bloom.cfg")], None,
             module="Trace_Bloom", family="Bloom", consts="CONSTANTS ",
             assumptions=["bit positions are derived by harness/src/refhash.rs: ((h0 + i*h1) >> 1) mod capacity, h0 = XXH64(item, seed), h1 = XXH64(item, h0), i = 1..k",
                          "the bit array is read from serialize() (32-byte preamble, little-endian 64-bit words)",
                          "the measured false-positive rate of with_accuracy(n, p) (a statistical statement) is not decided; every contains() answer, "
                          "false positives included, must equal the answer the specification's bit set gives"],
             rule="MC: two 6-bit filters, 5 items (one a false positive of two others), all insert/union/intersect/invert/reset sequences; "
                  "Trace: sizes {1,63,64,65,100,128,1000,1024,4096,4097,65536} bits x num_hashes {1,2,3,7,16} x seeds {9001,0,u64::MAX,..}, "
                  "u64 and string items, random insert/contains_and_insert/contains/union/intersect/invert/reset/round-trip histories over two "
                  "filters, bit array and bits_used after every step / checkpoint")


# --------------------------------------------------------------------------- CPC
CPC_CONSTS = "CONSTANTS NumCols = 64  WinBits = 8  SpNum = 3  SpDen = 32  OffBase = 19\n"


def C05(tier, seed):
    hll_like("C05", tier, seed, ["C05"], "cpc-record", [("MC_Cpc", "MC_Cpc.cfg")], None,
             module="Trace_Cpc", family="Cpc", consts=CPC_CONSTS, extra_args={"what": "sketch"},
             assumptions=["(row, col) of a public update() is derived by harness/src/refhash.rs (row = h1 & (k-1), col = min(63, lz(h2)), seed 9001)",
                          "state is read through CpcSketch::verif_state(); the pair table is compared as a set (its slot layout is not observable through the sketch)",
                          "lg_k 21 and 26 spot checks are not recorded as traces (TLC cannot hold 2^21 rows); covered only through the lg_k-parametric specification"],
             rule="MC: 2 rows x 7 columns, 2-bit window, every order/multiplicity of the 14 coupons (all 2^14 matrices, offsets 0..4); "
                  "Trace: public random streams lg_k 4..8 (10, 12 checkpoints) up to 60k items, crafted (row, col) walks through "
                  "Empty->Sparse->Hybrid->Pinned->Sliding and window offsets 1..56 with holes left of the window, late surprises at offset+8 and 63, "
                  "duplicates, holes closed late; scalars after every coupon, full matrix/window/table/validate() at every window move")


def C06(tier, seed):
    hll_like("C06", tier, seed, ["C06"], "cpc-record", [("MC_CpcUnion", "MC_CpcUnion.cfg")], None,
             module="Trace_Cpc", family="Cpc", consts=CPC_CONSTS, extra_args={"what": "union"},
             assumptions=["inputs are built through the public update() and the (row, col) hook; union state is read through CpcUnion::verif_state()",
                          "the model of a union is the OR of the inputs' model matrices folded to the smallest lg_k (ghost of the trace specification)"],
             rule="MC: toy unions of lg_k 1..2 over a 7-shape catalogue (empty, sparse, windowed at several offsets, both lg_k), every sequence with "
                  "repetition, to_sketch after every step; Trace: unions of lg_k 4,5,6,8,11 over catalogues of 10+ inputs (lg_k 4..8, all five "
                  "flavors, fresh / deserialized / previous merge results), random orders with repetition, to_sketch with full state after every step")


# --------------------------------------------------------------------------- t-digest
def tdigest_like(pid, tier, seed, check, with_spec_digests, assumptions, rule):
    t0 = time.time()
    clean(pid)
    thorough = tier == "thorough"
    vhbin = build_harness()
    mc = [tlc_mc("TDigestMerge", "MC_TDigestMerge.cfg", workers=6)]
    gen = []
    paths = []
    nruns = 0
    if with_spec_digests:
        cfg = "MC_TDigest_thorough.cfg" if thorough else "MC_TDigest.cfg"
        dig = work(pid, "digests.json")
        # the exhaustive run over all small digests both checks the query operators and emits the digests
        g = tlc_gen("MC_TDigest", cfg, dig, workers=8, timeout=3000)
        gen.append(g)
        rep = vh(vhbin, "td-replay", {"in": dig, "out": work(pid, "tdl"), "shards": 4})
        paths += [work(pid, "tdl.%d.ndjson" % i) for i in range(4)]
        nruns += rep["runs"]
    shards = 10
    rec = vh(vhbin, "td-record", {"out": work(pid, "td"), "shards": shards, "seed": seed, "tier": tier})
    paths += [work(pid, "td.%d.ndjson" % i) for i in range(shards)]
    nruns += rec["runs"]
    cfg = trace_cfg(pid, "TDigest", "CONSTANTS ", check)
    ev, rej, st = validate_shards("Trace_TDigest", cfg, paths, jobs=12)
    viol, hits = classify(pid, rej, "Trace_TDigest", cfg)
    cov = {"states": sum(m["states"] for m in mc) + sum(g["states"] for g in gen) + st,
           "transitions": sum(m["transitions"] for m in mc) + sum(g["transitions"] for g in gen) + ev,
           "traces_validated_against_impl": nruns - len(rej), "trace_events_validated": ev,
           "mc_instances": mc, "generators": gen,
           "behaviours_replayed_into_impl": sum(g["behaviours"] for g in gen),
           "samples": sample_events(paths[-3:], n=2, maxlen=4), "exhaustive": False, "rule": rule}
    finish(pid, tier, seed, "model_checking", cov, t0, viol, assumptions, hits)


def C10(tier, seed):
    tdigest_like("C10", tier, seed, ["C10"], True,
                 ["rank/quantile of the specification are exact rationals; the real f64 answers are compared with them by the harness with relative "
                  "tolerance 1e-9 (the distinguishing gap between different rationals of the instance is > 1e-4)",
                  "floating-point means, extremes and query results of recorded streams are order-projected per event",
                  "the count of finite values and the exact extremes of a stream are supplied by the driver (it generates the stream)"],
                 "MC: TDigest.tla rank/quantile operators on every valid digest with <=3 centroids, means/min/max 0..3 (0..4 thorough), weights {1,2,5} "
                 "({1,2,3,5}), half-integer v grid and q = i/4W (range, monotone, end points, rank(quantile(q)) resolution); TDigestMerge.tla: every merge policy; "
                 "Gen: every digest with a heavy first/last centroid is loaded from an image and every grid answer compared with the exact rational; "
                 "Trace: streams of 7 shapes x k in {10,29,30,100,200,500} with merges, freeze/unfreeze, serialize/deserialize, 41-point v and q grids, cdf/pmf, empty split list")


def C15(tier, seed):
    tdigest_like("C15", tier, seed, ["C15"], False,
                 ["the clause 'rank error within a few multiples of q(1-q)/k' is a numeric accuracy statement over populations of streams and is NOT decided",
                  "exact-to-one-sample at the extremes is checked when the extreme value was offered once (with duplicates of the extreme the digest may fold them into the next centroid)",
                  "the centroid list is read from serialize(); floats are order-projected per event"],
                 "MC: TDigestMerge.tla (weights sum, means sorted, inside [min,max], exact extremes, singleton end centroids) for every merge policy; "
                 "Trace: streams of 1..12k values (1e6 thorough) of 7 shapes, k in {10,29,30,100,200,500} (65535 thorough), merge trees of up to 16 digests: "
                 "after every compress the centroid count <= 2k+30, image size = 32+16c, weights sum to total_weight = values offered, means sorted inside [min,max], extremes exact")


# --------------------------------------------------------------------------- cross-family properties
FAMS = {
  "hll":   dict(cmd="hll-record", module="Trace_Hll", consts=HLL_CONSTS, args={}),
  "hllu":  dict(cmd="hllu-record", module="Trace_Hll", consts=HLL_CONSTS, args={}),
  "hllv":  dict(cmd="hllv-record", module="Trace_Hll", consts=HLL_CONSTS, args={}),
  "theta": dict(cmd="theta-record", module="Trace_Theta", consts=THETA_CONSTS, args={}),
  "cpc":   dict(cmd="cpc-record", module="Trace_Cpc", consts=CPC_CONSTS, args={"what": "sketch"}),
  "cpcu":  dict(cmd="cpc-record", module="Trace_Cpc", consts=CPC_CONSTS, args={"what": "union"}),
  "fi":    dict(cmd="fi-record", module="Trace_FreqItems", consts=FI_CONSTS, args={}),
  "cm":    dict(cmd="cm-record", module="Trace_CountMin", consts="CONSTANTS ", args={}),
  "bloom": dict(cmd="bloom-record", module="Trace_Bloom", consts="CONSTANTS ", args={}),
  "td":    dict(cmd="td-record", module="Trace_TDigest", consts="CONSTANTS ", args={}),
}


def multi(pid, tier, seed, fams, mcs, assumptions, rule, level="model_checking", extra=None, profile="release"):
    """One property decided over several families: every family's recorder is run and its traces are
    validated by the family's trace specification with this property's conjuncts switched on."""
    t0 = time.time()
    clean(pid)
    vhbin = build_harness(profile)
    mc = [tlc_mc(m, c, workers=6) for (m, c) in mcs]
    ev_total, st_total, runs_total, rej_all, samples = 0, 0, 0, [], []
    viol, hits = [], []
    per = {}
    for fam in fams:
        f = FAMS[fam]
        shards = 8
        args = {"out": work(pid, fam), "shards": shards, "seed": seed, "tier": tier}
        args.update(f["args"])
        rec = vh(vhbin, f["cmd"], args)
        paths = [work(pid, "%s.%d.ndjson" % (fam, i)) for i in range(shards)]
        cfg = trace_cfg(pid + "_" + fam, f["module"][6:], f["consts"], [pid])
        ev, rej, st = validate_shards(f["module"], cfg, paths, jobs=shards)
        v, h = classify(pid, rej, f["module"], cfg)
        # keep replay names unique across families
        v2 = []
        for path in v:
            np_ = path.replace(pid + "-", pid + "-" + fam + "-")
            os.rename(path, np_)
            os.rename(path + ".meta.json", np_ + ".meta.json")
            v2.append(np_)
        viol += v2
        hits += h
        ev_total += ev
        st_total += st
        runs_total += rec["runs"] - len(rej)
        per[fam] = {"events": ev, "runs": rec["runs"], "rejections": len(rej)}
        samples += sample_events(paths, n=1, maxlen=3)
    if extra:
        for (fam, module, consts, paths, nruns, gstats) in extra(vhbin, pid, tier, seed):
            cfg = trace_cfg(pid + "_" + fam, module[6:], consts, [pid])
            ev, rej, st = validate_shards(module, cfg, paths, jobs=8)
            v, h = classify(pid, rej, module, cfg)
            v2 = []
            for path in v:
                np_ = path.replace(pid + "-", pid + "-" + fam + "-")
                os.rename(path, np_)
                os.rename(path + ".meta.json", np_ + ".meta.json")
                v2.append(np_)
            viol += v2
            hits += h
            ev_total += ev
            st_total += st + gstats.get("states", 0)
            runs_total += nruns - len(rej)
            per[fam] = {"events": ev, "runs": nruns, "rejections": len(rej), "generator": gstats}
            samples += sample_events(paths, n=1, maxlen=3)
    cov = {"states": sum(m["states"] for m in mc) + st_total,
           "transitions": sum(m["transitions"] for m in mc) + ev_total,
           "traces_validated_against_impl": runs_total, "trace_events_validated": ev_total,
           "mc_instances": mc, "per_family": per, "samples": samples[:4], "exhaustive": False, "rule": rule}
    finish(pid, tier, seed, level, cov, t0, viol, assumptions, hits)


def C11(tier, seed):
    multi("C11", tier, seed, ["hll", "hllu", "theta", "cpc", "fi", "cm", "bloom", "td"],
          [("MC_Hll", "MC_Hll_A.cfg"), ("MC_FreqItems", "MC_FreqItems.cfg")],
          ["round trips are steps (RT / FRT / CRT / PRT / BRT / DCopy events) of the recorded histories of every family: the copy must hold the "
           "state the specification's RoundTrip action yields (identity up to what the format cannot carry), report bit-identical estimates and bounds, "
           "re-serialize to the same bytes where the layout is canonical (HLL Hll4 exception order and frequent-items pair order follow the writer's "
           "table layout and are compared as multisets), and later updates/merges on the copy are validated like any other step",
           "frequent items is exercised with i64 items in recorded traces; u64 and String items only through the harness's direct equality check"],
          "all family recorders (HLL sketch+union, theta compact v3/v4 with delta widths 1..63 and 0..1000 (4100 thorough) entries, CPC all flavors + "
          "CpcWrapper, frequent items, Count-Min all counter types, Bloom, t-digest) with Check = {C11}")


def C12(tier, seed):
    multi("C12", tier, seed, ["hll", "hllv", "theta", "cpc", "fi", "cm", "bloom", "td"],
          [("MC_Hll", "MC_Hll_A.cfg")],
          ["the layouts are written in the specification (HllFormat.tla, ThetaFormat.tla, Enc* operators of the trace specifications) from the Java/C++ "
           "format documentation, not from the library's writer; serialize() output is compared byte for byte with the specification's encoding of the "
           "state the specification itself computed for the recorded history",
           "f64 fields (HLL hip/kxq, theta as 8 bytes, hashes) are passed through as bytes: the specification fixes their position, not their value",
           "CPC: the preamble (2..9 ints: flags, first interesting column, coupon count, table entry count, HIP fields and word counts in the order of the "
           "eight Java formats) is re-encoded by the specification, the entropy-coded words are opaque (only their total length is checked); t-digest: "
           "the whole double-flavour image is re-encoded (means and extremes passed through as bytes); agreement with Java/C++ rests on the "
           "transcription, reference images are absent"],
          "byte-exact comparison at every checkpoint of the HLL (all modes/types, exceptions, out-of-order), theta compact (v3 and v4 incl. bit packing "
          "on bit sequences for <= 300 entries, reference packer above), frequent items, Count-Min and Bloom traces")


def td_spec_digests(vhbin, pid, tier, seed):
    """t-digest: the digests enumerated by TDigest.tla, loaded from images in every encoding."""
    dig = work(pid, "digests.json")
    g = tlc_gen("MC_TDigest", "MC_TDigest.cfg", dig, workers=8, timeout=3000)
    rep = vh(vhbin, "td-replay", {"in": dig, "out": work(pid, "tdl"), "shards": 4})
    return [("tdl", "Trace_TDigest", "CONSTANTS ", [work(pid, "tdl.%d.ndjson" % i) for i in range(4)], rep["runs"], g)]


def C13(tier, seed):
    multi("C13", tier, seed, ["hllv", "theta", "bloom", "fi"], extra=td_spec_digests, mcs=
          [("MC_Hll", "MC_Hll_A.cfg")], assumptions=
          ["image variants are produced by the harness's own encoders (fam_hllfmt.rs, fam_theta.rs) AND re-encoded by the specification "
           "(EncList/EncSet/EncArr, EncV1..EncV4): both must agree byte for byte before the library's decoding is judged",
           "HLL: compact and updatable list/set/array images, Hll4 exceptions as compact list and as updatable exception table, out-of-order flag; "
           "theta: serial versions 1-4 (empty, single, exact, estimating, ordered/unordered); t-digest: the digests enumerated by TDigest.tla as "
           "double / float / buffered / reference big-endian double and float images (these encoders live in the harness only; every answer must be "
           "bit-identical to the double image's, whose answers are checked against the specification's exact rationals)",
           "Bloom: every checkpointed filter state as an exact image and as an image whose bit count is the dirty marker 2^64 - 1 (BLoad), "
           "including saturated filters; frequent items: empty images (flags 4 and 5) that state a map larger than the minimum, as the C++ "
           "constructor with a starting size writes them (FFrom), then streams, round trips and merges on the decoded sketch"], rule=
          "every source state (list, set, array x Hll4/6/8, with exceptions, out of order; compact theta states from random and crafted sketches) "
          "in every variant; after loading: full state comparison, further updates, union into an empty union, re-serialization")


def bulk_stage(cmd, name, profile=None):
    def stage(vhbin, pid, tier, seed):
        b = build_harness(profile) if profile else vhbin
        n = 4
        rec = vh(b, cmd, {"out": work(pid, name), "shards": n, "seed": seed, "tier": tier}, timeout=7200)
        return [(name, "Trace_Bulk", "CONSTANTS ", [work(pid, "%s.%d.ndjson" % (name, i)) for i in range(n)], rec["runs"], {})]
    return stage


def C17(tier, seed):
    def stages(vhbin, pid, tier, seed):
        return bulk_stage("ext-record", "ext")(vhbin, pid, tier, seed) + bulk_stage("ext-record", "extrel", "release")(vhbin, pid, tier, seed)
    multi("C17", tier, seed, ["hll", "hllu", "hllv", "theta", "cpc", "cpcu", "fi", "cm", "bloom", "td"],
          [("MC_Hll", "MC_Hll_A.cfg"), ("MC_Cpc", "MC_Cpc.cfg")], profile="dbg", extra=stages, assumptions=
          ["every recorded history consists of operations whose documented preconditions hold (the recorders only call the API within its documented "
           "ranges; TLC-generated behaviours are enabled only where the specification's action is); a panic is recorded as a Panic event, which no "
           "action of any trace specification explains",
           "all recorders run from a harness built with debug-assertions = on and overflow-checks = on (profile dbg, same optimisation level as release); "
           "the extremes scenarios run in both profiles",
           "the bulk scenarios at lg_k 21..26 are too large for TLC to track their state: they are validated as sequences of Bulk steps (scalars only)"],
          rule="all family recorders (HLL, HLL union, HLL image variants, theta, CPC sketch and union, frequent items, Count-Min, Bloom, t-digest) rebuilt with "
               "debug assertions and overflow checks; extremes: HLL lg_k 4 and 21 x 3 types with cur_min shifts under a live exception map, CPC lg_k 4/5 walks to "
               "window offset 56, lg_k 21 (22, 26 thorough) to Sliding with serialization, theta lg_k 5 and 26 x 4 resize factors x sampling, t-digest k 10, 32768, "
               "65535 with empty split lists, frequent items map 8, Bloom 1 bit, Count-Min 1x3 for all eight counter types incl. upper_bound")


def C18(tier, seed):
    multi("C18", tier, seed, ["hll", "theta", "fi", "cm", "bloom"],
          [("MC_Hll", "MC_Hll_B.cfg"), ("MC_Theta", "MC_Theta.cfg")], extra=bulk_stage("size-record", "size"), assumptions=
          ["checkpoints after every power-of-two prefix of streams of up to 2^18 items (2^22 thorough): distinct, repeated (5000-value domain) and "
           "long-run ordered; between checkpoints the state is not tracked by TLC (Size events carry mode, counts and the image length)",
           "the CPC clause is a count: per trace file at most 12 of at most 4000 checkpoints may exceed max_serialized_bytes (binomial(4000, 0.001) "
           "tail < 1e-9), evaluated by the trace specification at the End event",
           "HLL image size is also checked after every single update of the C02 workloads (ObsOK len = SerLen)"],
          rule="size-record: HLL lg_k {4,7,8,10,12,(14)} x 3 types x 3 stream shapes, theta lg_k {5,8,12} with trims, CPC lg_k {4,8,10,11,12} x shapes x repeats, "
               "frequent items maps {8,64,1024}, Bloom, Count-Min, t-digest k {10,100,500}; plus the per-update size conjuncts of the family traces")


# --------------------------------------------------------------------------- C14
def C14(tier, seed):
    t0 = time.time()
    clean("C14")
    vhbin = build_harness()
    scripts = work("C14", "scripts.json")
    g = tlc_gen("Gen_Mutations", "Gen_Mutations.cfg", scripts)
    rec = vh(vhbin, "c14-record", {"scripts": scripts, "out": work("C14", "c14"), "seed": seed, "tier": tier}, timeout=7200)
    paths = [work("C14", "c14.%d.ndjson" % i) for i in range(2)]
    cfg = trace_cfg("C14", "Malformed", "CONSTANTS ", ["C14"])
    ev, rej, st = validate_shards("Trace_Malformed", cfg, paths, jobs=2)
    viol, hits = classify("C14", rej, "Trace_Malformed", cfg)
    samples = []
    for pth in paths:
        for line in open(pth):
            e = json.loads(line)
            if e.get("op") in ("MBatch", "MBad") and len(samples) < 6:
                samples.append(e)
    cov = {"evaluations": rec["cases"], "distinct_nontrivial": rec["cases"],
           "rule": "corpus of %d valid images (every family, variant and mode) x %d TLC-generated mutation scripts (boundary values in every "
                   "preamble byte / 16 / 32 / 64-bit field, pairs of byte overwrites, bit flips, truncation at every offset <= 200, extension, payload "
                   "flips; quick tier: a 20%% seeded sample per image and entry point) + every intact image to every entry point + %d random byte "
                   "strings; each case is one (image bytes, entry point) pair that differs from the valid image, run in a worker process with a "
                   "counting allocator (budget 16 MiB + 64 bytes per input byte per single allocation; requests above 64 MiB are refused); Ok values "
                   "are queried, updated, merged and re-serialized" % (rec["corpus"], rec["scripts"], rec["random"]),
           "samples": samples, "generator": g, "bad_classes_seen": rec["bad_classes"],
           "states": g["states"] + st, "transitions": g["transitions"] + ev, "traces_validated_against_impl": rec["runs"] - len(rej)}
    finish("C14", tier, seed, "exploration", cov, t0, viol,
           ["Ok versus Err is never asserted; a verdict other than Ok/Err (panic with location, abort, allocation above budget, > 2 s) is a violation",
            "an empty image of a huge configuration (Count-Min num_buckets x num_hashes, Bloom num_longs, CPC lg_k 26, frequent-items map sizes) "
            "legitimately implies a configuration-sized object in the other libraries too; these are listed as known findings, not silently allowed",
            "hangs are not detected other than by the driver's timeout (tool error)"], hits)


# --------------------------------------------------------------------------- C01 (deterministic clauses)
def C01(tier, seed):
    multi("C01", tier, seed, ["hll", "hllu", "theta", "cpc", "cpcu"],
          [("MC_Theta", "MC_Theta_p.cfg")],
          ["DECIDED: in every state of every recorded history (streamed, merged, deserialized; HLL lg_k 4..12 all types/modes/estimators incl. "
           "out-of-order composite; CPC lg_k 4..12 HIP and ICON (merged); theta lg_k 5..12 incl. sampling) lb3 <= lb2 <= lb1 <= estimate <= ub1 <= ub2 <= ub3 "
           "(order-projected per event); a theta sketch at theta = 1.0 reports exactly the retained count; a sampling theta sketch whose updates were "
           "all screened out is not empty and has a positive upper bound; Hll4/Hll6/Hll8 and to_sketch target types report bit-identical numbers; "
           "a theta sketch claims exact mode exactly when the specification's theta is 1.0; the spread the one-sigma bounds advertise equals the "
           "relative standard error of the estimator the specification state selects (HLL register mode: sqrt(ln 2)/sqrt k for HIP, sqrt(3 ln 2 - 1)/sqrt k "
           "for the composite estimator of an out-of-order sketch, +-4%, lg_k to 13 (14 thorough); CPC: sqrt(ln 2 / 2)/sqrt k for HIP, ln 2/sqrt k for ICON "
           "of a merged sketch, +-4% (+-17% for ICON below lg_k 8); theta: sqrt((1 - theta)/n) for n >= 400, within 12%) - so an interval cannot be "
           "narrower than the estimator's own standard error, which is the deterministic part of 'coverage never materially below nominal'; in HLL register "
           "mode the three-sigma upper bound is never below the number of non-zero registers of the specification state (NzOK)",
           "NOT DECIDED: absence of bias, the empirical spread over random item sets, and the 68/95/99.7% coverage rates are statements about a "
           "probability distribution of floating-point outputs; a TLA+ specification has neither reals nor probability and no statistical engine is "
           "added beside it. A swapped interpolation-table row or a few-percent bias that keeps the bounds nested is not detected by this check"],
          "family recorders of HLL, HLL union, theta, CPC and CPC union with Check = {C01}: bounds and estimate observed after every update, union step, "
          "to_sketch, round trip and compact")
